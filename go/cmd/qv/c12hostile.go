package main

// C12, two families sent to a LIVE server on all four transports ("multi" server child of c12lost.go), each followed
// by fresh clients that must connect, authenticate and be answered by every object:
//
// 1. hostile DYNAMIC VALUES in every request that carries one — a capability-map entry of authenticate (from a
//    connection that has not authenticated yet, and from one that has), the value and the name of setProperty
//    (action 6) and the name of property (action 5) of the directory and of both generic objects: lists and maps
//    whose ELEMENT TYPE OCCUPIES NO BYTE in every shape ([v], [()], [(v)], [(vv)], [(()())], [((v))], {vv}, {v()},
//    named empty structs, generated ones; alone, behind a sized member, inside a list, a map value, a nested
//    dynamic value) with an announced count near 2^32, signatures with unknown letters, empty, unclosed, nested 40
//    deep, 64 kB long, sized elements with a huge count and no data.  The decoders themselves are C07's subject
//    (go/cmd/qv/c07.go runs the same shapes through them directly); here the question is whether the object that
//    decodes such a value on its mailbox goroutine still serves OTHER clients afterwards.
//
// 2. hostile behaviour at the TRANSPORT level on every listener kind (unix://, tcp://, tcps://, pipe://): 1..20
//    connections that close at once, stay silent, send random bytes / an HTTP request / a frame header with a huge
//    size, half a TLS ClientHello, a whole ClientHello and nothing more, a handshake that offers only TLS 1.0, a
//    completed TLS handshake followed by garbage; each either closed or HELD OPEN while the fresh clients probe.  On
//    pipe:// the same bytes go to the rendezvous socket (no descriptor is passed), plus: the descriptor is passed and
//    the client is gone before it takes the server's.
//
// Oracles (implementation side): server alive; a fresh client on the same transport and on each other one
// connects, authenticates (state done) and gets three Replies.  One server child serves several inputs in a row; a
// failure behind others is repeated alone on a fresh server.  Cases go to coq/run/C12Run.v (pmismatches: Hostile.v
// runs the frames — an undecodable value is payload class PBad, a hostile connection is an unreadable frame — and
// only the probes are compared; the model has neither transports nor unauthenticated connections).

import (
	"crypto/tls"
	"fmt"
	gonet "net"
	"os"
	"strings"
	"syscall"
	"time"

	"github.com/lugu/qiloop/bus/net"
	"qv/internal/hx"
)

// ---- family 1: hostile dynamic values ----

type c12hval struct {
	what string // for the report
	sig  string
	data []byte
	zw   bool // a container of zero-width elements with a huge count
}

func (v c12hval) bytes() []byte { return append(c12str(v.sig), v.data...) }

// c12zwType draws the signature of a type whose values occupy no byte.
func c12zwType(rng *hx.Rng, depth int) string {
	if depth <= 0 || rng.Chance(0.3) {
		return []string{"v", "()"}[rng.Intn(2)]
	}
	n := 1 + rng.Intn(3)
	s := "("
	var names []string
	for i := 0; i < n; i++ {
		s += c12zwType(rng, depth-1)
		names = append(names, string(rune('a'+i)))
	}
	s += ")"
	if rng.Chance(0.3) {
		s += "<E" + fmt.Sprint(rng.Intn(10)) + "," + strings.Join(names, ",") + ">"
	}
	return s
}

func c12hugeCount(rng *hx.Rng) uint32 {
	return []uint32{0xffffffff, 0xfffffffe, 0x80000000, 0x7fffffff, 0x60000000}[rng.Intn(5)]
}

// c12hostileValues: the dynamic values of family 1.
func c12hostileValues(rng *hx.Rng) []c12hval {
	var out []c12hval
	// containers of zero-width elements, every shape once
	containers := []string{"[v]", "[()]", "[(v)]", "[(vv)]", "[(()())]", "[((v))]", "[(v)<E,a>]", "[(v())<E,a,b>]", "{vv}", "{v()}", "{(v)(v)}", "{()(vv)}"}
	for i := 0; i < 4; i++ {
		z := c12zwType(rng, 3)
		if len(z) <= 2 {
			z = "(" + z + z + ")"
		}
		if rng.Bool() {
			containers = append(containers, "["+z+"]")
		} else {
			containers = append(containers, "{"+z+c12zwType(rng, 2)+"}")
		}
	}
	for i, c := range containers {
		n := c12hugeCount(rng)
		if i < 12 && i%2 == 0 {
			n = 0xffffffff
		}
		cnt := c12le32(n)
		v := c12hval{what: fmt.Sprintf("signature %q followed by the count %#x (elements that occupy no byte)", c, n), sig: c, data: cnt, zw: true}
		// alone, or inside another type (the data around it is well formed)
		switch (i + rng.Intn(2)) % 7 {
		case 1:
			v.sig, v.data = "(i"+c+")", append(c12le32(5), cnt...)
		case 2:
			v.sig, v.data = "["+c+"]", append(c12le32(1), cnt...)
		case 3:
			v.sig, v.data = "{i"+c+"}", append(append(c12le32(1), c12le32(7)...), cnt...)
		case 4:
			v.sig, v.data = "m", append(c12str(c), cnt...)
		case 5:
			v.sig, v.data = "("+c+"s)", append(append([]byte{}, cnt...), c12str("x")...)
		}
		if v.sig != c {
			v.what = fmt.Sprintf("signature %q whose %s is followed by the count %#x (elements that occupy no byte)", v.sig, c, n)
			if v.sig == "m" {
				v.what = fmt.Sprintf("a dynamic value inside a dynamic value: signature \"m\", then signature %q followed by the count %#x (elements that occupy no byte)", c, n)
			}
		}
		out = append(out, v)
	}
	// the plain zero-width shapes always alone as well (the 13-byte inputs)
	for _, c := range []string{"[(v)]", "{vv}", "[(vv)]", "[(()())]"} {
		out = append(out, c12hval{what: fmt.Sprintf("signature %q followed by the count 0xffffffff (elements that occupy no byte)", c), sig: c, data: c12le32(0xffffffff), zw: true})
	}
	// other hostile signatures / counts
	nest := func(o, c string, n int) string { return strings.Repeat(o, n) + "i" + strings.Repeat(c, n) }
	others := []c12hval{
		{what: "unknown letter Q", sig: "Q"},
		{what: "list of an unknown letter", sig: "[Q]", data: c12le32(3)},
		{what: "tuple with an unknown letter", sig: "(iQ)", data: c12le32(3)},
		{what: "map with an unknown key letter", sig: "{Qi}", data: c12le32(1)},
		{what: "signature ?", sig: "?"},
		{what: "empty signature", sig: ""},
		{what: "unclosed list", sig: "["},
		{what: "unclosed tuple", sig: "(i", data: c12le32(1)},
		{what: "unclosed map", sig: "{s"},
		{what: "30 unclosed parentheses", sig: strings.Repeat("(", 30)},
		{what: "lists nested 40 deep", sig: nest("[", "]", 40), data: append(bytesRepeat(c12le32(1), 40), c12le32(9)...)},
		{what: "tuples nested 40 deep", sig: nest("(", ")", 40), data: c12le32(9)},
		{what: "lists of zero-width elements nested 12 deep, every count 0xffffffff", sig: strings.Repeat("[", 12) + "(v)" + strings.Repeat("]", 12), data: bytesRepeat(c12le32(0xffffffff), 12), zw: true},
		{what: "a tuple of 65536 members without data", sig: "(" + strings.Repeat("i", 65536) + ")"},
		{what: "[i] with count 0xffffffff and no data", sig: "[i]", data: c12le32(0xffffffff)},
		{what: "[s] with count 0x7fffffff and one element", sig: "[s]", data: append(c12le32(0x7fffffff), c12str("x")...)},
		{what: "{ss} with count 0xffffffff and no data", sig: "{ss}", data: c12le32(0xffffffff)},
		{what: "[m] with count 0xffffffff", sig: "[m]", data: c12le32(0xffffffff)},
		{what: "[m] of 4096 void values", sig: "[m]", data: append(c12le32(4096), bytesRepeat(c12str("v"), 4096)...)},
		{what: "raw with size 0xffffffff", sig: "r", data: c12le32(0xffffffff)},
		{what: "string with size 0xffffffff", sig: "s", data: c12le32(0xffffffff)},
		{what: "dynamic values nested 200 deep", sig: "m", data: append(bytesRepeat(c12str("m"), 200), c12vi(1)...)},
		{what: "object reference without data", sig: "o"},
	}
	return append(out, others...)
}

func bytesRepeat(b []byte, n int) []byte {
	out := make([]byte, 0, len(b)*n)
	for i := 0; i < n; i++ {
		out = append(out, b...)
	}
	return out
}

var c12hcarriers = []string{"authenticate-entry-before-authentication", "authenticate-entry-after-authentication", "authenticate-token-before-authentication",
	"setProperty-value-directory", "setProperty-value-generic-object", "setProperty-value-second-generic-object", "setProperty-name", "property-name"}

type c12hostileSpec struct {
	family    string // "value" | "transport"
	transport string // of the hostile connections
	// value
	val     c12hval
	carrier string
	hold    bool // the hostile connection stays open while the fresh clients probe
	// transport
	behaviour string
	conns     int
}

func (sp c12hostileSpec) String() string {
	held := "then closes"
	if sp.hold {
		held = "and stays connected"
	}
	if sp.family == "value" {
		return fmt.Sprintf("hostile-value[over %s:// in %s: %s; the client waits 250 ms for the answer %s]", sp.transport, sp.carrier, sp.val.what, held)
	}
	return fmt.Sprintf("hostile-transport[%d connection(s) to the %s:// listener: %s, %s]", sp.conns, sp.transport, sp.behaviour, held)
}

type c12hostileRun struct {
	frames []c12frame
	nconn  int
	sent   string
	fresh  []c12lostFresh
	alive  bool
}

// c12valueFrame: the request that carries the value.
func c12valueFrame(ch *c12child, sp c12hostileSpec) c12frame {
	v := sp.val.bytes()
	f := c12frame{typ: net.Call, id: 101, cls: c12PBad}
	switch sp.carrier {
	case "authenticate-entry-before-authentication", "authenticate-entry-after-authentication":
		f.svc, f.obj, f.act = 0, 0, 8
		f.payload = append(append(c12le32(1), c12str("x")...), v...)
	case "authenticate-token-before-authentication":
		f.svc, f.obj, f.act = 0, 0, 8
		f.payload = append(c12le32(2), append(append(c12str("auth_token"), v...), append(c12str("auth_user"), c12vS("alice")...)...)...)
	case "setProperty-value-directory":
		f.svc, f.obj, f.act, f.payload = 1, 1, 6, append(c12valueStr("x"), v...)
	case "setProperty-value-generic-object":
		f.svc, f.obj, f.act, f.payload = 2, 1, 6, append(c12valueStr("x"), v...)
	case "setProperty-value-second-generic-object":
		f.svc, f.obj, f.act, f.payload = 2, ch.obj2, 6, append(c12valueStr("x"), v...)
	case "setProperty-name":
		f.svc, f.obj, f.act, f.payload = 2, 1, 6, append(append([]byte{}, v...), c12valueInt(3)...)
	default: // property-name
		f.svc, f.obj, f.act, f.payload = 1, 1, 5, v
	}
	return f
}

// c12rawDial: a plain connection to the socket behind a listener (no TLS, no descriptor exchange).
func c12rawDial(ch *c12child, transport string) (gonet.Conn, error) {
	d := gonet.Dialer{Timeout: 2 * time.Second}
	switch transport {
	case "unix":
		return d.Dial("unix", ch.dir+"/sock")
	case "tcp":
		return d.Dial("tcp", ch.tcp)
	case "tcps":
		return d.Dial("tcp", ch.tls)
	case "pipe":
		return d.Dial("unix", ch.dir+"/psock")
	}
	return nil, fmt.Errorf("unknown transport %q", transport)
}

// c12clientHello: the bytes of a real TLS ClientHello record (crypto/tls client, captured once).
var c12helloBytes []byte

func c12clientHello() []byte {
	if c12helloBytes != nil {
		return c12helloBytes
	}
	a, b := gonet.Pipe()
	go func() {
		c := tls.Client(a, &tls.Config{InsecureSkipVerify: true})
		c.SetDeadline(time.Now().Add(time.Second))
		c.Handshake()
		a.Close()
	}()
	b.SetDeadline(time.Now().Add(time.Second))
	hdr := make([]byte, 5)
	if _, err := readFull(b, hdr); err == nil {
		body := make([]byte, int(hdr[3])<<8|int(hdr[4]))
		if _, err := readFull(b, body); err == nil {
			c12helloBytes = append(hdr, body...)
		}
	}
	b.Close()
	if c12helloBytes == nil {
		c12helloBytes = []byte{0x16, 0x03, 0x01, 0x00, 0x40, 0x01, 0x00, 0x00, 0x3c, 0x03, 0x03}
	}
	return c12helloBytes
}

func readFull(c gonet.Conn, b []byte) (int, error) {
	n := 0
	for n < len(b) {
		k, err := c.Read(b[n:])
		n += k
		if err != nil {
			return n, err
		}
	}
	return n, nil
}

var c12hbehaviours = []string{"closes at once", "sends nothing", "sends random bytes", "sends an HTTP request", "sends a frame header announcing 4 GB",
	"sends half a TLS ClientHello", "sends a TLS ClientHello and nothing more", "offers only TLS 1.0 in its handshake", "completes a TLS handshake where it can and sends garbage",
	"passes its pipe descriptor and does not take the server's"}

// c12behave: one hostile connection.  Returns what it wrote and the connection if it is still open.
func c12behave(ch *c12child, rng *hx.Rng, sp c12hostileSpec) (string, gonet.Conn) {
	c, err := c12rawDial(ch, sp.transport)
	if err != nil {
		return "could not connect: " + err.Error(), nil
	}
	c.SetDeadline(time.Now().Add(time.Second))
	wrote := ""
	send := func(b []byte) {
		c.Write(b)
		x := fmt.Sprintf("%x", b)
		if len(x) > 80 {
			x = x[:80] + fmt.Sprintf("..(%d bytes)", len(b))
		}
		wrote = "wrote " + x
	}
	switch sp.behaviour {
	case "closes at once", "sends nothing":
		wrote = "wrote nothing"
	case "sends random bytes":
		send(rng.Bytes(1 + rng.Intn(200)))
	case "sends an HTTP request":
		send([]byte("GET / HTTP/1.0\r\n\r\n"))
	case "sends a frame header announcing 4 GB":
		b := c12bytes(net.Call, 0, 0, 8, 1, nil)
		b[8], b[9], b[10], b[11] = 0xff, 0xff, 0xff, 0xff
		send(b)
	case "sends half a TLS ClientHello":
		h := c12clientHello()
		send(h[:len(h)/2])
	case "sends a TLS ClientHello and nothing more":
		send(c12clientHello())
	case "offers only TLS 1.0 in its handshake":
		t := tls.Client(c, &tls.Config{InsecureSkipVerify: true, MinVersion: tls.VersionTLS10, MaxVersion: tls.VersionTLS10})
		t.SetDeadline(time.Now().Add(300 * time.Millisecond))
		err := t.Handshake()
		wrote = fmt.Sprintf("ran a crypto/tls client handshake with MaxVersion TLS 1.0 (%v)", err)
	case "completes a TLS handshake where it can and sends garbage":
		t := tls.Client(c, &tls.Config{InsecureSkipVerify: true})
		t.SetDeadline(time.Now().Add(300 * time.Millisecond))
		if err := t.Handshake(); err == nil {
			g := rng.Bytes(1 + rng.Intn(100))
			t.Write(g)
			wrote = fmt.Sprintf("completed the TLS handshake and wrote %x inside", g)
		} else {
			wrote = fmt.Sprintf("ran a crypto/tls client handshake (%v)", err)
		}
	case "passes its pipe descriptor and does not take the server's":
		if u, ok := c.(*gonet.UnixConn); ok {
			if r, w, err := os.Pipe(); err == nil {
				u.WriteMsgUnix(nil, syscall.UnixRights(int(r.Fd())), nil)
				r.Close()
				w.Close()
				wrote = "passed the read end of a pipe (SCM_RIGHTS) and closed its write end"
			}
		} else {
			wrote = "wrote nothing"
		}
	}
	if sp.hold {
		return wrote, c
	}
	c.Close()
	return wrote, nil
}

func c12hostilePlay(ch *c12child, rng *hx.Rng, sp c12hostileSpec) *c12hostileRun {
	run := &c12hostileRun{}
	var held []interface{ Close() error }
	defer func() {
		for _, h := range held {
			h.Close()
		}
	}()
	if sp.family == "value" {
		run.nconn = 1
		f := c12valueFrame(ch, sp)
		mf := f
		if mf.svc == 2 {
			mf.svc = ch.svc
		}
		var h *c12raw
		c, err := c12open(ch, sp.transport, 0)
		if err == nil {
			if strings.HasSuffix(sp.carrier, "before-authentication") {
				h = &c12raw{c: c}
			} else if h, err = c12handshake(c, "", ""); err != nil {
				h = nil
			}
		}
		if h == nil {
			run.sent = fmt.Sprintf("the hostile client could not connect / authenticate (%v)", err)
		} else {
			h.writeFrame(mf.typ, mf.svc, mf.obj, mf.act, mf.id, mf.payload)
			answered := h.await(mf.id, 250*time.Millisecond)
			run.sent = fmt.Sprintf("the client wrote %s (answered within 250 ms: %v)", strings.Join(h.sent, " "), answered)
			run.frames = append(run.frames, f)
			if sp.hold {
				held = append(held, h.c)
			} else {
				h.c.Close()
				run.frames = append(run.frames, c12frame{conn: 0, raw: []byte{}})
			}
		}
	} else {
		run.nconn = sp.conns
		var ws []string
		for k := 0; k < sp.conns; k++ {
			w, c := c12behave(ch, rng, sp)
			if k < 3 {
				ws = append(ws, fmt.Sprintf("connection %d %s", k, w))
			}
			if c != nil {
				held = append(held, c)
			}
			run.frames = append(run.frames, c12frame{conn: k, raw: []byte{}})
		}
		run.sent = strings.Join(ws, "; ")
		if sp.conns > 3 {
			run.sent += "; ..."
		}
		time.Sleep(30 * time.Millisecond)
	}
	run.alive = ch.alive()
	order := []string{sp.transport}
	for _, t := range c12transports {
		if t != sp.transport {
			order = append(order, t)
		}
	}
	for i, t := range order {
		fr, _ := c12freshOver(ch, t+"://", t, 0)
		run.fresh = append(run.fresh, fr)
		if i == 0 && (fr.err != "" || fr.probes != [3]int{int(net.Reply), int(net.Reply), int(net.Reply)}) && sp.family == "value" {
			break // (an object that is busy decoding is busy for every transport: one timeout is enough)
		}
	}
	run.alive = run.alive && ch.alive()
	return run
}

func (run *c12hostileRun) lost() *c12lostRun {
	return &c12lostRun{frames: run.frames, sent: run.sent, fresh: run.fresh, alive: run.alive}
}

// c12pipeAcceptWhat: defect of the pinned tree met by the transport family on pipe:// listeners.
const c12pipeAcceptWhat = "a client that connects to the rendezvous socket of a pipe:// listener and does not pass a descriptor stops the WHOLE server: pipeListener.Accept (bus/net/listen.go) " +
	"performs the descriptor exchange (fd.Get / fd.Put) inside Accept, without a deadline, and returns its failure as the error of Accept; server.run() (bus/server.go) treats every Accept error as the end " +
	"of the listener: it closes the listening socket, terminates every service and closes every connection.  A client that connects and stays silent blocks the accept loop of that listener for as long as it likes. " +
	"Input: connect to the unix socket of pipe://<path> and close at once; afterwards a fresh client on any transport of the server is refused"

func c12hostile(res *hx.Result, rng *hx.Rng, root, outdir, cfg string, rounds int) {
	lf := hx.NewCases(outdir, "C12h", "From QV Require Import Hostile C12Run.", "pmismatches g hostile", res, "hostile", "hcase")
	lf.Extra = append(lf.Extra, cfg)

	// ---- switch probe: pipe:// rendezvous without a descriptor ----
	pipeFatal := false
	if ch, err := c12startOpts(root, "multi"); err == nil {
		run := c12hostilePlay(ch, rng, c12hostileSpec{family: "transport", transport: "pipe", behaviour: "closes at once", conns: 1})
		pipeFatal = !run.lost().ok()
		ch.stop()
	}
	res.Switch("pipe_accept_fatal", pipeFatal, c12pipeAcceptWhat)

	for round := 0; round < rounds; round++ {
		var plan []c12hostileSpec
		// family 1: every value with every carrier once; transport of the hostile connection and hold/close rotate
		vals := c12hostileValues(rng)
		k := rng.Intn(8)
		for vi, v := range vals {
			for ci, carrier := range c12hcarriers {
				if !v.zw && (vi+ci+k)%2 == 1 && round == 0 { // (first round: the other hostile signatures with half of the carriers each)
					continue
				}
				n := vi*3 + ci + k
				tr := c12transports[n%4]
				if pipeFatal && tr == "pipe" {
					tr = c12transports[(n/4)%3]
				}
				plan = append(plan, c12hostileSpec{family: "value", transport: tr, val: v, carrier: carrier, hold: (n/4)%2 == 0})
			}
		}
		// family 2: every behaviour on every listener, closed and held
		for _, tr := range c12transports {
			for bi, b := range c12hbehaviours {
				if strings.Contains(b, "pipe descriptor") && tr != "pipe" {
					continue
				}
				for _, hold := range []bool{false, true} {
					if b == "closes at once" && hold {
						continue
					}
					if tr == "pipe" && pipeFatal && (hold || bi%3 != 0) {
						continue // (every one of them is the known defect: a few are enough, and a held one costs the fresh client's deadline)
					}
					plan = append(plan, c12hostileSpec{family: "transport", transport: tr, behaviour: b, hold: hold, conns: rng.Pick(1, 1, 3, 20)})
				}
			}
		}
		// order drawn per run: sequences in one server process
		for i := len(plan) - 1; i > 0; i-- {
			j := rng.Intn(i + 1)
			plan[i], plan[j] = plan[j], plan[i]
		}
		var ch *c12child
		var history []string
		served, failures, reruns := 0, 0, 0
		for _, sp := range plan {
			if failures >= 10 {
				res.Notes = append(res.Notes, "hostile values / transports: stopped after 10 failing inputs")
				break
			}
			if ch == nil || served >= 12 {
				if ch != nil {
					ch.stop()
				}
				var err error
				if ch, err = c12startOpts(root, "multi"); err != nil {
					res.Notes = append(res.Notes, "hostile: "+err.Error())
					ch = nil
					continue
				}
				history, served = nil, 0
			}
			obj2 := ch.obj2
			run := c12hostilePlay(ch, rng, sp)
			served++
			desc := sp.String() + ": " + run.sent
			known := sp.family == "transport" && sp.transport == "pipe" && pipeFatal
			ok := run.lost().ok()
			if !ok {
				if len(history) > 0 && reruns < 4 && !known {
					reruns++
					if ch2, err := c12startOpts(root, "multi"); err == nil {
						run2 := c12hostilePlay(ch2, rng, sp)
						if !run2.lost().ok() {
							run, desc, obj2 = run2, sp.String()+": "+run2.sent, ch2.obj2
						} else {
							desc = fmt.Sprintf("a server that had served %d other hostile inputs (the last: %s) and then %s", len(history), history[len(history)-1], desc)
						}
						ch2.stop()
					}
				}
				if known {
					kr := &hx.Result{}
					run.lost().judge(kr, desc)
					for _, f := range kr.Failures {
						res.FailKnown(f.Kind, f.Detail, "pipe_accept_fatal")
					}
				} else {
					failures++
					run.lost().judge(res, desc)
				}
				ch.stop()
				ch = nil
			} else {
				history = append(history, sp.String())
			}
			short := desc
			if len(short) > 1500 {
				short = short[:1500] + "..."
			}
			res.Count(short, true)
			res.Dist("kind:hostile-" + sp.family + "/" + sp.transport)
			if sp.family == "value" {
				res.Dist("hostile-value-carrier:" + sp.carrier)
			} else {
				res.Dist("hostile-transport:" + sp.behaviour)
			}
			if served%16 == 1 {
				res.Sample(fmt.Sprintf("%s: %d fresh clients, ok=%v", sp.String(), len(run.fresh), ok))
			}
			if !known { // (the model has no listeners: the known pipe:// defect cannot be expressed in it)
				lsp := c12lostSpec{conns: run.nconn}
				lf.Add("hostile", run.lost().caseTerm(lsp, obj2), short)
			}
		}
		if ch != nil {
			ch.stop()
		}
	}
	lf.Flush()
}
