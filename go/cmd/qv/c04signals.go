package main

// C04 (xi) — ordinary calls mixed with registerEvent / unregisterEvent traffic whose user ids are
// chosen by the clients and COLLIDE across connections.
//
// The user id of a subscription is picked by the subscriber (Proxy.SubscribeID draws it at random,
// ObjectProxy.RegisterEvent takes whatever the caller passes): two connections may use the same one
// for the same object, a connection may use one id for several objects, register it again after it
// unregistered it, unregister an id only another connection holds.  A registration installs a
// handler on the server side endpoint of the subscriber's connection (the disconnection hook) and
// an unregistration removes one: the table of the very endpoint whose slot 0 feeds every Call and
// Post of that connection into the router.  Whatever the subscription code does with its ids, every
// later call on EVERY connection must still get its one outcome.
//
// One run = 2-4 fresh connections of real clients over the frame relay, user ids from a pool of
// three, the objects of services 1, 2, 3, signal 102 (the `pong` signal; nothing emits it):
//   opening   every connection registers the same user id with the same object, one after the other;
//             then they unregister in a random order;
//   in turn   20-35 random registerEvent / unregisterEvent calls (also the ones the object refuses:
//             an id the connection already uses, an id it does not hold);
//   after EVERY such call every connection makes an ordinary call (Hello / Nanoseconds);
//   at once   per connection one goroutine goes on registering / unregistering while another one
//             makes ordinary calls.
// The harness mirrors which (connection, object, user id) are registered, so it knows which
// registrations the object refuses.  Oracle, per call, unchanged (c04FeatRun.judge): it returns within
// the deadline (call-without-outcome), a success carries its own result (registerEvent: the user id it
// sent; unregisterEvent: nothing; Hello: "re:"+arg+"#1") and its body ran once; an error is accepted
// only for a call the mirror says is refused (and the refusal of a full consumer queue).  The frames
// of every connection go through the trace check of C04Run (tcase).

import (
	"fmt"
	"sync"

	"qv/internal/hx"
)

const c04PongSignal = 102

type c04SubKey struct {
	who  int
	svc  uint32
	user uint64
}

type c04SigRun struct {
	*c04FeatRun
	reg map[c04SubKey]bool
}

// regOp: a registerEvent (or unregisterEvent) call of caller who, judged against the mirror, which is
// updated as if the call were served in the order of issue (per connection the calls are sequential)
func (s *c04SigRun) regOp(who int, svc uint32, user uint64, register bool) *c04FeatCall {
	k := c04SubKey{who, svc, user}
	have := s.reg[k]
	c := &c04FeatCall{who: who, svc: svc, payload: c04EventPayload(c04PongSignal, user)}
	holders := 0
	for o, on := range s.reg {
		if on && o.svc == svc && o.user == user && o.who != who {
			holders++
		}
	}
	if register {
		c.act = 0
		c.what = fmt.Sprintf("registerEvent(1, %d, %d) (user id held by %d other connection(s) for this object)", c04PongSignal, user, holders)
		if have {
			c.kind = fkRefused
			c.what += ", which this connection holds already,"
		} else {
			c.kind = fkRegister
			s.reg[k] = true
		}
	} else {
		c.act = 1
		c.what = fmt.Sprintf("unregisterEvent(1, %d, %d) (user id held by %d other connection(s) for this object)", c04PongSignal, user, holders)
		if have {
			c.kind = fkVoid
			delete(s.reg, k)
		} else {
			c.kind = fkRefused
			c.what += ", which this connection does not hold,"
		}
	}
	return c
}

func (s *c04SigRun) ordinary(rng *hx.Rng, who int) *c04FeatCall {
	switch rng.Intn(5) {
	case 0:
		return s.nanos(who)
	case 1, 2:
		return s.hello(who, 3)
	}
	return s.hello(who, 1)
}

func (h *c04Harness) collideRun(res *hx.Result, rng *hx.Rng, cases *hx.Cases, k, nconn int) (hung int) {
	r := &c04FeatRun{h: h, res: res, st: &c04FeatState{stats: map[uint32]bool{}, trace: map[uint32]bool{}}, tag: fmt.Sprintf("sg%d", k)}
	s := &c04SigRun{r, map[c04SubKey]bool{}}
	for i := 0; i < nconn; i++ {
		l, err := h.newLink()
		if err != nil {
			res.Fail("harness", "subscription run: "+err.Error())
			return 0
		}
		r.callers = append(r.callers, &c04FeatCaller{name: fmt.Sprintf("connection %c", 'A'+i), client: l.client, link: l})
	}
	defer func() {
		for _, cl := range r.callers {
			cl.link.ep.Close()
		}
	}()
	r.scen = fmt.Sprintf("subscription run %d (%d connections of real clients over the frame relay; calls mixed with registerEvent/unregisterEvent calls whose client-chosen user ids collide across the connections)", k, nconn)
	res.Sample(r.scen)
	res.Dist(fmt.Sprintf("subscriptions:%dconn", nconn))
	users := []uint64{7, 1, uint64(0x7000 + k)}
	svcs := []uint32{1, 2, 3}
	stop := func() bool { return r.hung >= 3 }
	everybodyCalls := func(pn string) {
		for _, who := range c04Perm(rng, nconn) {
			if stop() {
				return
			}
			r.one(s.ordinary(rng, who), pn)
		}
	}
	// ---- opening: the same user id for the same object on every connection ----
	svc0, user0 := svcs[k%3], users[k%2]
	for who := 0; who < nconn && !stop(); who++ {
		pn := fmt.Sprintf("opening: every connection in turn registers user id %d with object 1 of service %d", user0, svc0)
		r.one(s.regOp(who, svc0, user0, true), pn)
		everybodyCalls(pn + "; afterwards an ordinary call on every connection")
	}
	order := c04Perm(rng, nconn)
	if k%2 == 1 { // the last one to register leaves first
		order = nil
		for who := nconn - 1; who >= 0; who-- {
			order = append(order, who)
		}
	}
	for _, who := range order {
		if stop() {
			break
		}
		pn := fmt.Sprintf("opening: all %d connections hold user id %d of object 1 of service %d, they unregister it one after the other", nconn, user0, svc0)
		r.one(s.regOp(who, svc0, user0, false), pn)
		everybodyCalls(pn + "; afterwards an ordinary call on every connection")
	}
	// ---- in turn ----
	pick := func(g *hx.Rng, who int) *c04FeatCall {
		svc, user := svcs[g.Intn(3)], users[g.Intn(3)]
		have := s.reg[c04SubKey{who, svc, user}]
		register := !have
		if g.Chance(0.2) { // the call the object refuses
			register = have
		}
		return s.regOp(who, svc, user, register)
	}
	nops := 20 + rng.Intn(16)
	for i := 0; i < nops && !stop(); i++ {
		pn := fmt.Sprintf("in turn, operation %d", i)
		r.one(pick(rng, rng.Intn(nconn)), pn)
		everybodyCalls(pn + ": the ordinary call every connection makes after it")
	}
	// ---- at once ----
	if !stop() {
		pn := "at once: on every connection one goroutine registers / unregisters colliding user ids while another one makes ordinary calls"
		var wmu sync.Mutex
		var all []*c04FeatCall
		var wg sync.WaitGroup
		for who := 0; who < nconn; who++ {
			var regs, ords []*c04FeatCall
			for i := 0; i < 6+rng.Intn(5); i++ {
				regs = append(regs, pick(rng, who))
			}
			for i := 0; i < 6+rng.Intn(5); i++ {
				ords = append(ords, s.ordinary(rng, who))
			}
			all = append(append(all, regs...), ords...)
			for _, mine := range [][]*c04FeatCall{regs, ords} {
				wg.Add(1)
				go func(mine []*c04FeatCall) {
					defer wg.Done()
					for _, c := range mine {
						wmu.Lock()
						d := r.start(c)
						wmu.Unlock()
						if !c04WaitCh(d, c04FeatDeadline) {
							return
						}
					}
				}(mine)
			}
		}
		wdone := make(chan struct{})
		go func() { wg.Wait(); close(wdone) }()
		c04WaitCh(wdone, 2*c04FeatDeadline)
		r.judgeIssued(all, nil, pn)
		if !stop() {
			everybodyCalls("after the concurrent phase: an ordinary call on every connection")
		}
	}
	for li, cl := range r.callers {
		cl.link.cs.WaitIdle(c04FeatDeadline)
		cl.link.ss.WaitIdle(c04FeatDeadline)
		cases.Add("ts", c04TraceTerm(cl.link), fmt.Sprintf("subscription run %d connection %d: frames written by the client and by the server", k, li))
	}
	return r.hung
}

func (h *c04Harness) collidingSubscriptions(res *hx.Result, rng *hx.Rng, cases *hx.Cases, tier string) {
	runs := 4
	if tier == "thorough" {
		runs = 80
	}
	for k := 1; k <= runs; k++ {
		if h.collideRun(res, rng, cases, k, 2+k%3) > 0 {
			h.note(fmt.Sprintf("subscription runs: stopped after run %d, calls did not return", k))
			break
		}
	}
}
