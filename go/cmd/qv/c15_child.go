package main

// Child processes of the C15 harness: they run a real directory server and may die of a Go
// runtime fatal error (unsynchronised map access in the pinned code); the parent reads what
// they managed to write.

import (
	"bufio"
	"encoding/json"
	"fmt"
	"os"
	"path/filepath"
	"runtime"
	"strconv"
	"strings"
	"sync"
	"sync/atomic"
	"time"

	"github.com/lugu/qiloop/bus"
	"github.com/lugu/qiloop/bus/directory"
	"github.com/lugu/qiloop/bus/net"
	"github.com/lugu/qiloop/bus/services"
	"github.com/lugu/qiloop/bus/util"
	"github.com/lugu/qiloop/type/basic"
	"github.com/lugu/qiloop/type/object"
	"qv/internal/hx"
)

// a service object that answers nothing (the directory only needs it to exist)
type idleActor struct{}

func (idleActor) Receive(m *net.Message, from bus.Channel) error {
	return from.SendError(m, bus.ErrActionNotFound)
}
func (idleActor) Activate(a bus.Activation) error { return nil }
func (idleActor) OnTerminate()                    {}

type noSession struct{}

func (noSession) Proxy(name string, objectID uint32) (bus.Proxy, error) {
	return nil, fmt.Errorf("no session")
}
func (noSession) Object(ref object.ObjectReference) (bus.Proxy, error) {
	return nil, fmt.Errorf("no session")
}
func (noSession) Terminate() error { return nil }

func goid() int {
	var buf [64]byte
	n := runtime.Stack(buf[:], false)
	f := strings.Fields(string(buf[:n]))
	if len(f) >= 2 {
		id, _ := strconv.Atoi(f[1])
		return id
	}
	return -1
}

// recorder: one logical clock, operation records of all threads
type recorder struct {
	clock  int64
	mu     sync.Mutex
	ops    []hOp
	tids   map[int]int // goroutine id -> thread id of local callers
	closed bool
	addr   string
}

func (r *recorder) tick() int64 { return atomic.AddInt64(&r.clock, 1) }
func (r *recorder) add(o hOp) {
	r.mu.Lock()
	if !r.closed {
		r.ops = append(r.ops, o)
	}
	r.mu.Unlock()
}
func (r *recorder) localTid() int {
	r.mu.Lock()
	defer r.mu.Unlock()
	if t, ok := r.tids[goid()]; ok {
		return t
	}
	return 0
}

// infos built by the directory's own Namespace adapter carry this process's machine id,
// pid and the server address: renamed to constants
func (r *recorder) norm(i dInfo) dInfo {
	if i.Machine == util.MachineID() {
		i.Machine = "M"
		if i.Pid == util.ProcessID() {
			i.Pid = 1
		}
	}
	for k, e := range i.Endpoints {
		if e == r.addr {
			i.Endpoints[k] = "A"
		}
	}
	return i
}

// recNS records every call the hosting server makes on its Namespace (the local path)
type recNS struct {
	inner bus.Namespace
	rec   *recorder
}

func (n *recNS) localInfo(name string) dInfo {
	return dInfo{Name: name, Machine: "M", Pid: 1, Endpoints: []string{"A"}}
}
func (n *recNS) Reserve(name string) (uint32, error) {
	t, inv := n.rec.localTid(), n.rec.tick()
	id, err := n.inner.Reserve(name)
	ret := n.rec.tick()
	res := dRes{Kind: rID, ID: id}
	if err != nil {
		res = dRes{Kind: rErr}
	}
	n.rec.add(hOp{Tid: t, Op: dOp{Kind: opRegister, Info: n.localInfo(name)}, Inv: inv, Ret: ret, Res: res, Via: "local"})
	return id, err
}
func (n *recNS) cls(err error) dRes {
	if err != nil {
		return dRes{Kind: rErr}
	}
	return dRes{Kind: rOk}
}
func (n *recNS) Remove(id uint32) error {
	t, inv := n.rec.localTid(), n.rec.tick()
	err := n.inner.Remove(id)
	ret := n.rec.tick()
	n.rec.add(hOp{Tid: t, Op: dOp{Kind: opUnregister, ID: id}, Inv: inv, Ret: ret, Res: n.cls(err), Via: "local"})
	return err
}
func (n *recNS) Enable(id uint32) error {
	t, inv := n.rec.localTid(), n.rec.tick()
	err := n.inner.Enable(id)
	ret := n.rec.tick()
	n.rec.add(hOp{Tid: t, Op: dOp{Kind: opReady, ID: id}, Inv: inv, Ret: ret, Res: n.cls(err), Via: "local"})
	return err
}
func (n *recNS) Resolve(name string) (uint32, error) {
	t, inv := n.rec.localTid(), n.rec.tick()
	id, err := n.inner.Resolve(name)
	ret := n.rec.tick()
	res := dRes{Kind: rID, ID: id}
	if err != nil {
		res = dRes{Kind: rErr}
	}
	n.rec.add(hOp{Tid: t, Op: dOp{Kind: opResolve, Name: name}, Inv: inv, Ret: ret, Res: res, Via: "local"})
	return id, err
}
func (n *recNS) Session(s bus.Server) bus.Session { return n.inner.Session(s) }

func svcInfo(i dInfo) services.ServiceInfo {
	return services.ServiceInfo{Name: i.Name, ServiceId: i.ID, MachineId: i.Machine, ProcessId: i.Pid,
		Endpoints: i.Endpoints, SessionId: i.Session, ObjectUid: i.UID}
}
func fromSvcInfo(i services.ServiceInfo) dInfo {
	return dInfo{i.Name, i.ServiceId, i.MachineId, i.ProcessId, append([]string{}, i.Endpoints...), i.SessionId, i.ObjectUid}
}

type remoteClient struct {
	dir   services.ServiceDirectoryProxy
	proxy bus.Proxy
	ep    net.EndPoint
}

func dialDirectory(addr string) (*remoteClient, error) {
	_, channel, err := bus.SelectEndPoint([]string{addr}, "", "")
	if err != nil {
		return nil, err
	}
	client := bus.NewClient(channel)
	meta, err := bus.GetMetaObject(client, 1, 1)
	if err != nil {
		return nil, err
	}
	proxy := bus.NewProxy(client, meta, 1, 1)
	return &remoteClient{dir: services.MakeServiceDirectory(noSession{}, proxy), proxy: proxy, ep: channel.EndPoint()}, nil
}

// call runs one directory operation through the remote proxy
func (c *remoteClient) call(rec *recorder, o dOp) dRes {
	cls := func(err error) dRes {
		if err != nil {
			return dRes{Kind: rErr}
		}
		return dRes{Kind: rOk}
	}
	switch o.Kind {
	case opRegister:
		id, err := c.dir.RegisterService(svcInfo(o.Info))
		if err != nil {
			return dRes{Kind: rErr}
		}
		return dRes{Kind: rID, ID: id}
	case opUnregister:
		return cls(c.dir.UnregisterService(o.ID))
	case opReady:
		return cls(c.dir.ServiceReady(o.ID))
	case opUpdate:
		return cls(c.dir.UpdateServiceInfo(svcInfo(o.Info)))
	case opService:
		i, err := c.dir.Service(o.Name)
		if err != nil {
			return dRes{Kind: rErr}
		}
		return dRes{Kind: rInfo, Info: rec.norm(fromSvcInfo(i))}
	case opServices:
		l, err := c.dir.Services()
		if err != nil {
			return dRes{Kind: rErr}
		}
		r := dRes{Kind: rList}
		for _, i := range l {
			r.List = append(r.List, rec.norm(fromSvcInfo(i)))
		}
		return r
	case opMachine:
		m, err := c.dir.MachineId()
		if err != nil || m != util.MachineID() {
			return dRes{Kind: rErr}
		}
		return dRes{Kind: rMachine}
	case opSocket:
		out := new(bytesBuf)
		basic.WriteUint32(o.ID, out)
		_, err := c.proxy.CallID(109, out.b)
		return cls(err)
	}
	return dRes{Kind: rErr}
}

type bytesBuf struct{ b []byte }

func (w *bytesBuf) Write(p []byte) (int, error) { w.b = append(w.b, p...); return len(p), nil }

// ---------- a subscriber whose connection is broken ----------
// The server's listener is wrapped: on the connection chosen by the harness, writes of Event
// frames fail with a (non-EOF) write error while the fault is armed — what a peer that
// stopped reading / a half-dead TCP connection gives.  signalHandler.UpdateSignal then
// delivers to the healthy subscribers and reports the error to the directory's signal helper.
type faultCtl struct {
	accepted int32 // connections accepted so far
	broken   int32 // index of the connection whose event writes fail (-1: none)
	budget   int32 // number of event writes still to fail (< 0: all of them)
	failed   int32 // event writes that failed
}

type faultListener struct {
	inner net.Listener
	ctl   *faultCtl
}

func (l faultListener) Accept() (net.Stream, error) {
	s, err := l.inner.Accept()
	if err != nil {
		return s, err
	}
	idx := atomic.AddInt32(&l.ctl.accepted, 1) - 1
	return &faultStream{Stream: s, idx: idx, ctl: l.ctl}, nil
}
func (l faultListener) Close() error { return l.inner.Close() }

type faultStream struct {
	net.Stream
	idx int32
	ctl *faultCtl
}

func (s *faultStream) Write(p []byte) (int, error) {
	// net.Message.Write hands over one buffer per frame; byte 14 of the header is the type
	if s.idx == atomic.LoadInt32(&s.ctl.broken) && len(p) >= net.HeaderSize && p[14] == net.Event {
		if b := atomic.LoadInt32(&s.ctl.budget); b != 0 {
			if b > 0 {
				atomic.AddInt32(&s.ctl.budget, -1)
			}
			atomic.AddInt32(&s.ctl.failed, 1)
			return 0, fmt.Errorf("write unix: broken pipe")
		}
	}
	return s.Stream.Write(p)
}

type script struct {
	tid   int
	local bool
	ops   []dOp // remote: directory operations; local: Kind opRegister = NewService(name), opUnregister = Terminate last service, opResolve
}

func genScripts(rng *hx.Rng) []script {
	names := []string{"a", "b"}
	var ss []script
	nRemote := 2 + rng.Intn(2)
	for c := 1; c <= nRemote; c++ {
		n := 3 + rng.Intn(2)
		s := script{tid: c}
		for k := 0; k < n; k++ {
			name := names[rng.Intn(len(names))]
			id := uint32(2 + rng.Intn(4)) // 0xffffffff in the script means: the id this client registered last
			if rng.Chance(0.65) {
				id = 0xffffffff
			}
			switch x := rng.Intn(100); {
			case x < 30:
				s.ops = append(s.ops, dOp{Kind: opRegister, Info: dInfo{Name: name, Machine: "m", Pid: uint32(c), Endpoints: []string{"e"}}})
			case x < 48:
				s.ops = append(s.ops, dOp{Kind: opReady, ID: id})
			case x < 63:
				s.ops = append(s.ops, dOp{Kind: opUnregister, ID: id})
			case x < 72:
				s.ops = append(s.ops, dOp{Kind: opUpdate, Info: dInfo{Name: name, ID: id, Machine: "m", Pid: uint32(c), Endpoints: []string{"e", "f"}}})
			case x < 84:
				s.ops = append(s.ops, dOp{Kind: opService, Name: name})
			case x < 96:
				s.ops = append(s.ops, dOp{Kind: opServices})
			case x < 98:
				s.ops = append(s.ops, dOp{Kind: opMachine})
			default:
				s.ops = append(s.ops, dOp{Kind: opSocket, ID: id})
			}
		}
		ss = append(ss, s)
	}
	nLocal := rng.Intn(3) // no local thread: the mailbox alone orders the calls
	for l := 0; l < nLocal; l++ {
		s := script{tid: 10 + l, local: true}
		n := 2 + rng.Intn(2)
		for k := 0; k < n; k++ {
			name := names[rng.Intn(len(names))]
			switch x := rng.Intn(100); {
			case x < 45:
				s.ops = append(s.ops, dOp{Kind: opRegister, Name: name})
			case x < 75:
				s.ops = append(s.ops, dOp{Kind: opUnregister})
			default:
				s.ops = append(s.ops, dOp{Kind: opResolve, Name: name})
			}
		}
		ss = append(ss, s)
	}
	return ss
}

func oneHistory(rng *hx.Rng) (h hist, err error) {
	var brokenSubs []*remoteClient
	defer func() {
		for _, b := range brokenSubs {
			b.ep.Close()
		}
	}()
	addr := util.NewUnixAddr()
	rec := &recorder{tids: map[int]int{}, addr: addr}
	vd := directory.VerifNewDirectory()
	ns := &recNS{inner: vd.Namespace(addr), rec: rec}
	inner, err := net.Listen(addr)
	if err != nil {
		return h, err
	}
	ctl := &faultCtl{broken: -1}
	listener := faultListener{inner: inner, ctl: ctl}
	srv, err := bus.NewServer(listener, bus.Yes{}, ns, vd.Object())
	if err != nil {
		listener.Close()
		return h, err
	}
	defer func() {
		rec.mu.Lock()
		rec.closed = true
		rec.mu.Unlock()
		done := make(chan struct{})
		go func() { srv.Terminate(); close(done) }()
		select {
		case <-done:
		case <-time.After(2 * time.Second):
		}
		os.Remove(strings.TrimPrefix(addr, "unix://"))
	}()

	// fault plan: in one history out of three a second subscriber has a broken connection —
	// for every event, or for the first one or two only (the caller's retry then meets a
	// healthy bus); it subscribes before or after the healthy subscriber
	faultMode, brokenFirst := 0, rng.Bool()
	if rng.Chance(0.34) {
		faultMode = 1 + rng.Intn(3) // 1: every event; 2, 3: the first 1, 2 events
	}
	subscribeBroken := func() error {
		if faultMode == 0 {
			return nil
		}
		bs, err := dialDirectory(addr)
		if err != nil {
			return fmt.Errorf("broken subscriber: %v", err)
		}
		// dialDirectory made a round trip: the connection is the last one accepted
		idx := atomic.LoadInt32(&ctl.accepted) - 1
		bobj := bus.MakeObject(bs.proxy)
		if _, err := bobj.RegisterEvent(1, 106, 7101); err != nil {
			return fmt.Errorf("broken subscriber: %v", err)
		}
		if _, err := bobj.RegisterEvent(1, 107, 7102); err != nil {
			return fmt.Errorf("broken subscriber: %v", err)
		}
		budget := int32(-1)
		if faultMode > 1 {
			budget = int32(faultMode - 1)
		}
		atomic.StoreInt32(&ctl.budget, budget)
		atomic.StoreInt32(&ctl.broken, idx)
		h.Note = fmt.Sprintf("a second subscriber's connection gives a write error for %s", map[int]string{1: "every event", 2: "the first event", 3: "the first two events"}[faultMode])
		brokenSubs = append(brokenSubs, bs)
		return nil
	}
	if brokenFirst {
		if err := subscribeBroken(); err != nil {
			return h, err
		}
	}
	// subscriber: one raw handler sees the event frames of both signals in connection order
	sub, err := dialDirectory(addr)
	if err != nil {
		return h, fmt.Errorf("subscriber: %v", err)
	}
	evq := make(chan *net.Message, 4096)
	sub.ep.MakeHandler(func(hdr *net.Header) (bool, bool) {
		return hdr.Type == net.Event && hdr.Service == 1 && hdr.Object == 1 && (hdr.Action == 106 || hdr.Action == 107), true
	}, evq, nil)
	obj := bus.MakeObject(sub.proxy)
	if _, err := obj.RegisterEvent(1, 106, 7001); err != nil {
		return h, fmt.Errorf("subscribe serviceAdded: %v", err)
	}
	if _, err := obj.RegisterEvent(1, 107, 7002); err != nil {
		return h, fmt.Errorf("subscribe serviceRemoved: %v", err)
	}
	if !brokenFirst {
		if err := subscribeBroken(); err != nil {
			return h, err
		}
	}

	scripts := genScripts(rng)
	clients := map[int]*remoteClient{}
	for _, s := range scripts {
		if !s.local {
			c, err := dialDirectory(addr)
			if err != nil {
				return h, fmt.Errorf("client %d: %v", s.tid, err)
			}
			clients[s.tid] = c
		}
	}
	start := make(chan struct{})
	var wg sync.WaitGroup
	delays := map[int][]int{}
	for _, s := range scripts {
		for range s.ops {
			delays[s.tid] = append(delays[s.tid], rng.Intn(4))
		}
	}
	for _, s := range scripts {
		wg.Add(1)
		go func(s script) {
			defer wg.Done()
			if s.local {
				rec.mu.Lock()
				rec.tids[goid()] = s.tid
				rec.mu.Unlock()
			}
			<-start
			lastID := uint32(1 + s.tid) // before its first registration a client guesses a small id
			var svcs []bus.Service
			retried := 0
			for k, o := range s.ops {
				switch delays[s.tid][k] {
				case 1:
					runtime.Gosched()
				case 2:
					time.Sleep(time.Duration(20+10*k) * time.Microsecond)
				case 3:
					time.Sleep(150 * time.Microsecond)
				}
				if s.local {
					switch o.Kind {
					case opRegister:
						svc, err := srv.NewService(o.Name, idleActor{})
						if err == nil {
							svcs = append(svcs, svc)
						}
					case opUnregister:
						if len(svcs) > 0 {
							svcs[0].Terminate()
							svcs = svcs[1:]
						}
					case opResolve:
						ns.Resolve(o.Name)
					}
					continue
				}
				if o.ID == 0xffffffff {
					o.ID = lastID
				}
				if o.Info.ID == 0xffffffff {
					o.Info.ID = lastID
				}
				// one remote call under a deadline; false: it did not return (the thread stops:
				// a thread is sequential, nothing follows a call that is still pending)
				remote := func(o dOp) (dRes, bool) {
					inv := rec.tick()
					resc := make(chan dRes, 1)
					go func() { resc <- clients[s.tid].call(rec, o) }()
					select {
					case r := <-resc:
						rec.add(hOp{Tid: s.tid, Op: o, Inv: inv, Ret: rec.tick(), Res: r, Via: "remote"})
						return r, true
					case <-time.After(3 * time.Second):
						rec.add(hOp{Tid: s.tid, Op: o, Inv: inv, Ret: 0, Via: "remote"})
						return dRes{}, false
					}
				}
				r, ok := remote(o)
				if !ok {
					return
				}
				if o.Kind == opRegister && r.Kind == rID {
					lastID = r.ID
				}
				if faultMode != 0 && r.Kind == rErr && (o.Kind == opReady || o.Kind == opUnregister) && retried < 2 {
					// what a client does when serviceReady / unregisterService reports an error
					// while the bus has a sick subscriber: it looks, and tries again
					retried++
					if _, ok := remote(dOp{Kind: opServices}); !ok {
						return
					}
					if _, ok := remote(o); !ok {
						return
					}
				}
			}
		}(s)
	}
	close(start)
	fin := make(chan struct{})
	go func() { wg.Wait(); close(fin) }()
	finished := true
	select {
	case <-fin:
	case <-time.After(8 * time.Second):
		finished = false
		h.Note = strings.TrimSpace(h.Note + " threads did not finish within 8 s")
	}
	rec.mu.Lock()
	h.Ops = append([]hOp{}, rec.ops...)
	rec.closed = true
	rec.mu.Unlock()
	if finished {
		// quiescent: the records the registry holds now (ownership oracle)
		allDone := true
		for _, o := range h.Ops {
			if o.Ret == 0 {
				allDone = false
			}
		}
		if allDone {
			stg, svc, _ := vd.State()
			for _, i := range stg {
				h.Held = append(h.Held, heldEntry{i.ServiceId, i.Name, false})
			}
			for _, i := range svc {
				h.Held = append(h.Held, heldEntry{i.ServiceId, i.Name, true})
			}
		}
	}
	// collect the signals: wait for as many as the results call for (long deadline: the
	// subscriber's reader goroutine may be scheduled late on a loaded machine), then a short
	// grace period for surplus ones
	readyOk, unregOk := map[uint32]bool{}, map[uint32]bool{}
	for _, o := range h.Ops {
		if o.Tid == 0 || o.Ret == 0 {
			continue
		}
		if o.Op.Kind == opReady && o.Res.Kind == rOk {
			readyOk[o.Op.ID] = true
		}
		if o.Op.Kind == opUnregister && o.Res.Kind == rOk {
			unregOk[o.Op.ID] = true
		}
	}
	want := len(readyOk)
	for id := range unregOk {
		if readyOk[id] {
			want++
		}
	}
	take := func(m *net.Message) {
		r := bytesReader{m.Payload}
		id, err1 := basic.ReadUint32(&r)
		name, err2 := basic.ReadString(&r)
		if err1 == nil && err2 == nil {
			h.Events = append(h.Events, dEvent{Added: m.Header.Action == 106, ID: id, Name: name})
		}
	}
	deadline := time.After(3 * time.Second)
collect:
	for len(h.Events) < want {
		select {
		case m := <-evq:
			take(m)
		case <-deadline:
			break collect
		}
	}
	grace := time.After(20 * time.Millisecond)
surplus:
	for {
		select {
		case m := <-evq:
			take(m)
		case <-grace:
			break surplus
		}
	}
	for _, c := range clients {
		c.ep.Close()
	}
	sub.ep.Close()
	return h, nil
}

type bytesReader struct{ b []byte }

func (r *bytesReader) Read(p []byte) (int, error) {
	if len(r.b) == 0 {
		return 0, fmt.Errorf("EOF")
	}
	n := copy(p, r.b)
	r.b = r.b[n:]
	return n, nil
}

func c15ChildHist(res *hx.Result, rng *hx.Rng, tier string, outdir string) {
	n, _ := strconv.Atoi(os.Getenv("C15_HIST_N"))
	seed, _ := strconv.ParseUint(os.Getenv("C15_HIST_SEED"), 10, 64)
	r := hx.NewRng(seed)
	f, err := os.Create(filepath.Join(outdir, "hist.jsonl"))
	if err != nil {
		panic(err)
	}
	w := bufio.NewWriter(f)
	fails := 0
	for k := 0; k < n && fails < 5; k++ {
		h, err := oneHistory(r)
		if err != nil {
			fmt.Fprintln(os.Stderr, "history setup:", err)
			fails++
			k--
			continue
		}
		b, _ := json.Marshal(h)
		w.Write(b)
		w.WriteString("\n")
		w.Flush()
	}
	f.Close()
	os.Exit(0)
}

// c15ChildRace: remote clients and local NewService/Terminate hammer one directory
func c15ChildRace(res *hx.Result, rng *hx.Rng, tier string, outdir string) {
	ms, _ := strconv.Atoi(os.Getenv("C15_RACE_MS"))
	if ms == 0 {
		ms = 2000
	}
	addr := util.NewUnixAddr()
	srv, err := directory.NewServer(addr, nil)
	if err != nil {
		fmt.Fprintln(os.Stderr, "setup:", err)
		os.Exit(3)
	}
	stop := time.Now().Add(time.Duration(ms) * time.Millisecond)
	var wg sync.WaitGroup
	for c := 0; c < 3; c++ {
		cl, err := dialDirectory(addr)
		if err != nil {
			fmt.Fprintln(os.Stderr, "setup:", err)
			os.Exit(3)
		}
		wg.Add(1)
		go func(c int) {
			defer wg.Done()
			for time.Now().Before(stop) {
				id, err := cl.dir.RegisterService(services.ServiceInfo{Name: "x", MachineId: "m", ProcessId: 1, Endpoints: []string{"e"}})
				if err == nil {
					cl.dir.ServiceReady(id)
					cl.dir.Services()
					cl.dir.Service("x")
					cl.dir.UnregisterService(id)
				} else {
					cl.dir.Services()
					cl.dir.Service("x")
				}
			}
		}(c)
	}
	for g := 0; g < 2; g++ {
		wg.Add(1)
		go func() {
			defer wg.Done()
			for time.Now().Before(stop) {
				svc, err := srv.NewService("x", idleActor{})
				if err == nil {
					svc.Terminate()
				}
			}
		}()
	}
	wg.Wait()
	// second phase: one remote registerService("y") against one local NewService("y"), started
	// together; at most one of them may succeed
	cl, err := dialDirectory(addr)
	if err == nil {
		stop = time.Now().Add(time.Duration(ms*3/4) * time.Millisecond)
		rounds, doubles := 0, 0
		for time.Now().Before(stop) && doubles == 0 {
			rounds++
			start := make(chan struct{})
			var rid uint32
			var rerr, lerr error
			var svc bus.Service
			var w2 sync.WaitGroup
			w2.Add(2)
			twoLocal := rounds%2 == 0 // even rounds: two local callers; odd rounds: remote against local
			var svc2 bus.Service
			go func() {
				defer w2.Done()
				<-start
				if twoLocal {
					svc2, rerr = srv.NewService("y", idleActor{})
					if rerr == nil {
						rid = svc2.ServiceID()
					}
					return
				}
				rid, rerr = cl.dir.RegisterService(services.ServiceInfo{Name: "y", MachineId: "m", ProcessId: 1, Endpoints: []string{"e"}})
			}()
			go func() {
				defer w2.Done()
				<-start
				if !twoLocal {
					// let the remote request travel
					for t0 := time.Now(); time.Since(t0) < time.Duration(rounds%40)*2*time.Microsecond; {
					}
				}
				svc, lerr = srv.NewService("y", idleActor{})
			}()
			close(start)
			w2.Wait()
			if rerr == nil && lerr == nil {
				doubles++
				who := "remote registerService(\"y\")"
				if twoLocal {
					who = "local NewService(\"y\")"
				}
				fmt.Printf("DOUBLE: round %d: %s -> id %d and local NewService(\"y\") -> id %d both succeeded\n", rounds, who, rid, svc.ServiceID())
			}
			if rerr == nil {
				if twoLocal {
					svc2.Terminate()
				} else {
					cl.dir.UnregisterService(rid)
				}
			}
			if lerr == nil {
				svc.Terminate()
			}
		}
		fmt.Printf("double-registration rounds: %d\n", rounds)
	}
	os.Remove(strings.TrimPrefix(addr, "unix://"))
	fmt.Println("race stress finished without a runtime error")
	os.Exit(0)
}
