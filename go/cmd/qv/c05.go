package main

import (
	"fmt"
	"os"
	"strings"
	"sync"

	"qv/internal/c05"
	"qv/internal/c05rt"
	"qv/internal/hx"
)

func init() { props["C05"] = runC05 }

// one generated package and what became of it
type c05job struct {
	id       string
	pkg      *c05.Package
	seed     uint64
	out      c05.Outcome
	triggers []c05.Trigger
	repaired *c05.Package // set when the package failed and met a trigger predicate
	rout     c05.Outcome
}

// c05failure describes why a package does not satisfy the property ("" = it does).
func c05failure(p *c05.Package, o c05.Outcome) (kind, detail string) {
	switch {
	case o.GenErr != "":
		return "does-not-compile", "the generators fail to render Go code: " + o.GenErr
	case o.BuildErr != "":
		return "does-not-compile", o.BuildErr
	case o.RunErr != "":
		return "driver", o.RunErr
	}
	base := 0
	for _, r := range o.Records {
		if r.Via == "" && r.Note == "" {
			base++
		}
	}
	if base != p.NumActions() {
		return "driver", fmt.Sprintf("%d records for %d actions", base, p.NumActions())
	}
	for _, r := range o.Records {
		if k, d := c05recordFailure(r); k != "" {
			return k, d
		}
	}
	return "", ""
}

// c05recordFailure: what one record of the driver says against the property ("" = nothing).
func c05recordFailure(r c05rt.Record) (kind, detail string) {
	via := ""
	if r.Via != "" {
		via = " [reached via " + r.Via + "]"
	}
	if r.Note != "" && r.Kind != "seq" {
		via += " [" + r.Note + "]"
	}
	trace := func(step int) string {
		if r.Kind != "seq" {
			return ""
		}
		if step+1 < len(r.Trace) {
			return fmt.Sprintf(" -- steps on the one stub/proxy pair: %s", strings.Join(r.Trace[:step+1], "; "))
		}
		return fmt.Sprintf(" -- steps on the one stub/proxy pair: %s", strings.Join(r.Trace, "; "))
	}
	if r.Err != "" {
		return r.Kind + "-fails", fmt.Sprintf("%s %s.%s%s: %s%s", r.Kind, r.Iface, r.Name, via, r.Err, trace(len(r.Trace)))
	}
	for _, l := range r.Legs {
		if !l.ValueOK {
			return l.What + "-not-equal", fmt.Sprintf("%s %s.%s%s (%s): passed %s, the other side got %s (payload %s)%s",
				r.Kind, r.Iface, r.Name, via, strings.Join(l.Sigs, " "), l.Canon, l.Got, l.Bytes, trace(l.Step))
		}
	}
	return "", ""
}

func c05known(sw map[string]bool, ts []c05.Trigger) string {
	for _, t := range ts {
		if sw[t.Key] {
			return t.Key
		}
	}
	return ""
}

func runC05(res *hx.Result, rng *hx.Rng, tier string, outdir string) {
	res.Rule = "idlgen: well-formed IDL packages (1-3 interfaces, 1-10 actions, structs shared between actions, Vec/Map/Tuple nesting, all scalars, any); " +
		"objects of other interfaces as method result / parameter / signal payload; plain stream and hostile-identifier stream (one hostile identifier per package); every proxy also through WithContext, returned objects exercised as secondary objects; " +
		"every stub/proxy pair with a signal or property also through a drawn sequence of Update/Set/Signal/Get/call steps (sequence stream: several properties and signals, 28 steps); " +
		"sizes stream: every action carries a list or map, driven with one container of each value at 0, 1, 4095, 4096 entries; non-trivial = a struct used by two actions or a nested container; " +
		"dynamic stream: any as parameter, result, signal payload, property, struct field, tuple member, list element and map value, every such action repeated once per kind of dynamic value (bool, 8 integer widths, float32/64, string, raw data, void, list of values, opaque struct / map / list, composite with a dynamic member) built with the constructors of type/value; in all streams half of the dynamic values are of a drawn kind; " +
		"distinct by sha256 of the IDL text"
	env, err := c05.NewEnv()
	if err != nil {
		fmt.Fprintln(os.Stderr, "C05:", err)
		os.Exit(1)
	}
	// the hostile stream walks through every identifier class in turn
	nPlain, nHostile, nSeq, nSizes, nDyn := 20, len(c05.HostileClasses), 5, 3, 2
	if tier == "thorough" {
		nPlain, nHostile, nSeq, nSizes, nDyn = 210, 6*len(c05.HostileClasses), 40, 12, 10
	}
	sw, over := c05probes(res, env)
	var jobs []*c05job
	for i := 0; i < nPlain; i++ {
		jobs = append(jobs, &c05job{id: fmt.Sprintf("p%03d", i), pkg: c05.GenPlain(rng, fmt.Sprintf("pk%03d", i)), seed: rng.U64()})
	}
	for i := 0; i < nHostile; i++ {
		class := c05.HostileClasses[i%len(c05.HostileClasses)]
		jobs = append(jobs, &c05job{id: fmt.Sprintf("h%03d", i), pkg: c05.GenHostile(rng, fmt.Sprintf("hk%03d", i), class), seed: rng.U64()})
	}
	// every stub / proxy pair of the two streams above gets a short sequence as well
	for _, j := range jobs {
		j.pkg.Steps = 10
	}
	for i := 0; i < nSeq; i++ {
		jobs = append(jobs, &c05job{id: fmt.Sprintf("q%03d", i), pkg: c05.GenSequence(rng, fmt.Sprintf("qk%03d", i)), seed: rng.U64()})
	}
	for i := 0; i < nSizes; i++ {
		jobs = append(jobs, &c05job{id: fmt.Sprintf("z%03d", i), pkg: c05.GenSizes(rng, fmt.Sprintf("zk%03d", i)), seed: rng.U64()})
	}
	for i := 0; i < nDyn; i++ {
		jobs = append(jobs, &c05job{id: fmt.Sprintf("d%03d", i), pkg: c05.GenDynamic(rng, fmt.Sprintf("dk%03d", i)), seed: rng.U64()})
	}
	sem := make(chan struct{}, 8)
	var wg sync.WaitGroup
	for _, j := range jobs {
		j := j
		wg.Add(1)
		sem <- struct{}{}
		go func() {
			defer wg.Done()
			defer func() { <-sem }()
			j.out = env.Run(j.id, j.pkg, j.seed, 3, false)
			j.triggers = c05.Triggers(j.pkg)
			if k, _ := c05failure(j.pkg, j.out); k != "" && c05known(sw, j.triggers) != "" {
				j.repaired = c05.Repair(j.pkg)
				j.rout = env.Run(j.id+"r", j.repaired, j.seed, 3, false)
			}
		}()
	}
	wg.Wait()
	cs := c05cases(res, outdir, sw)
	c05overCases(res, cs, over)
	repaired := 0
	for _, j := range jobs {
		before := len(res.Failures)
		c05evaluate(res, cs, sw, j)
		if j.repaired != nil {
			repaired++
		}
		// sources of packages that are fine (or fail in a recorded way) are not kept
		if len(res.Failures) == before || res.Failures[len(res.Failures)-1].Known != "" {
			os.RemoveAll(j.out.Dir)
			os.RemoveAll(j.rout.Dir)
		}
	}
	cs.Flush()
	res.Notes = append(res.Notes, fmt.Sprintf("%d packages generated, built against %s and driven; %d of them failed at a place meeting a recorded trigger and were rebuilt with that place edited away",
		len(jobs), env.Repo, repaired))
}

// c05evaluate: oracles, classification, evidence and correspondence cases of one package.
func c05evaluate(res *hx.Result, cs *hx.Cases, sw map[string]bool, j *c05job) {
	p := j.pkg
	text := p.Text()
	res.Count(text, p.NonTrivial())
	res.Dist("stream:" + p.Stream)
	if p.Class != "" {
		res.Dist("class:" + p.Class)
	}
	c05dist(res, p)
	kind, detail := c05failure(p, j.out)
	records := j.out.Records
	if kind != "" {
		replay := fmt.Sprintf("IDL package (%s):\n%s-- %s", p.String(), text, detail)
		known := ""
		if j.repaired != nil {
			if k2, d2 := c05failure(j.repaired, j.rout); k2 == "" {
				known = c05known(sw, j.triggers)
				records = j.rout.Records
			} else {
				// the repaired package (no trigger of a recorded defect left) fails as well
				kind, replay = k2, fmt.Sprintf("IDL package (repaired %s):\n%s-- %s", p.String(), j.repaired.Text(), d2)
			}
		}
		if known != "" {
			res.FailKnown(kind, replay, known)
			res.Dist("known:" + known)
		} else {
			res.Fail(kind, replay)
		}
	} else if len(res.Samples) < 3 {
		res.Sample(strings.ReplaceAll(text, "\n", " | "))
	}
	for _, r := range records {
		if r.Via != "" {
			res.Dist("reached-via:" + r.Via)
		}
		if r.Note != "" {
			res.Dist("pass:" + r.Note)
		}
		c05addCases(res, cs, j.id, r, false)
	}
}

func c05dist(res *hx.Result, p *c05.Package) {
	res.Dist(fmt.Sprintf("interfaces:%d", len(p.Ifaces)))
	res.Dist(fmt.Sprintf("structs:%d", len(p.Structs)))
	seen := map[string]bool{}
	note := func(t *c05.IType) {
		t.Walk(func(x *c05.IType) {
			k := map[c05.TK]string{c05.TScalar: x.Scalar, c05.TVec: "Vec", c05.TMap: "Map", c05.TTuple: "Tuple", c05.TRef: "struct", c05.TObj: "object"}[x.K]
			seen["type:"+k] = true
		})
	}
	for _, s := range p.Structs {
		for _, f := range s.Fields {
			note(f.T)
		}
	}
	for _, it := range p.Ifaces {
		for _, a := range it.Actions {
			res.Dist("action:" + a.Kind)
			for _, x := range a.Params {
				note(x.T)
			}
			note(a.Ret)
		}
	}
	for k := range seen {
		res.Dist(k) // packages in which the type occurs
	}
}

var _ = c05rt.Record{}
