package main

// C12 — one client cannot stop a service from serving others.
//
// The server (directory.NewServer on a unix socket in a temporary directory, plus one generic
// object built with bus.NewBasicObject) runs in a CHILD PROCESS: `qv c12-server <dir>` (re-exec of
// this binary, address space limited).  The parent plays the hostile client with raw frames on
// the socket (after a real authentication exchange), optionally a victim client, and finally a
// probe client on a fresh connection that must get an answer from every object the script did
// not remove, within a deadline.
//
// Two kinds of scripts:
//   * compared: every frame is followed by a barrier call whose answer is awaited, so the server
//     is at rest between frames; the frames the hostile client received and the probe results are
//     compared with coq/theories/Hostile.v (settled after each frame) inside Coq;
//   * oracle-only: floods without reading, mutated valid traffic, hostile length fields, abrupt
//     disconnects: only "server alive" and "probe answered" are judged.
// Further families: c12burst.go (bursts with the message type varied), c12svc0.go (volleys aimed at
// service 0 itself, then fresh clients that have to authenticate; model Auth.v), c12lost.go (clients
// gone before their answers are written, on every transport).

import (
	"bufio"
	"bytes"
	"encoding/binary"
	"fmt"
	"io"
	gonet "net"
	"os"
	"os/exec"
	"strings"
	"syscall"
	"time"

	"github.com/lugu/qiloop/bus"
	"github.com/lugu/qiloop/bus/directory"
	"github.com/lugu/qiloop/bus/net"
	"github.com/lugu/qiloop/type/object"
	"github.com/lugu/qiloop/type/value"
	"qv/internal/hx"
)

func init() {
	if len(os.Args) > 2 && os.Args[1] == "c12-server" {
		opts := ""
		if len(os.Args) > 3 {
			opts = os.Args[3]
		}
		c12server(os.Args[2], opts)
		os.Exit(0)
	}
	props["C12"] = runC12
}

const (
	c12Answer = 1500 * time.Millisecond // an answer that must come
	c12Probe  = 1500 * time.Millisecond
	c12Short  = 700 * time.Millisecond // an answer whose absence the probe will judge
)

func c12meta() object.MetaObject {
	return object.MetaObject{Description: "qv-generic", Methods: map[uint32]object.MetaMethod{},
		Signals:    map[uint32]object.MetaSignal{200: {Uid: 200, Name: "a", Signature: "(i)"}, 201: {Uid: 201, Name: "b", Signature: "(i)"}},
		Properties: map[uint32]object.MetaProperty{}}
}

// c12server: the child process.  opts (c12svc0.go, c12lost.go): "dict" = the server has a real
// authenticator (bus.Dictionary over c12users) instead of the one that accepts everybody; "multi" =
// it accepts connections on every transport of bus/net (unix://, tcp://, tcps://, pipe://) at once.
func c12server(dir string, opts string) {
	lim := syscall.Rlimit{Cur: 4 << 30, Max: 4 << 30}
	syscall.Setrlimit(syscall.RLIMIT_AS, &lim)
	var auth bus.Authenticator
	if strings.Contains(opts, "dict") {
		auth = bus.Dictionary(c12users)
	}
	var srv bus.Server
	var err error
	extra := ""
	if strings.Contains(opts, "multi") {
		srv, extra, err = c12multiServer(dir, auth)
	} else {
		srv, err = directory.NewServer("unix://"+dir+"/sock", auth)
	}
	if err != nil {
		fmt.Println("ERR", err)
		os.Exit(3)
	}
	svc, err := srv.NewService("qv-generic", bus.NewBasicObject(c13nop{}, c12meta(), func(string, []byte) error { return nil }))
	if err != nil {
		fmt.Println("ERR", err)
		os.Exit(3)
	}
	id2, err := svc.Add(bus.NewBasicObject(c13nop{}, c12meta(), func(string, []byte) error { return nil }))
	if err != nil {
		fmt.Println("ERR", err)
		os.Exit(3)
	}
	fmt.Println("READY", svc.ServiceID(), id2, extra)
	io.Copy(io.Discard, os.Stdin) // lives until the parent closes the pipe
}

type c12child struct {
	dir    string
	tcp    string // "multi" servers: host:port of the tcp:// and of the tcps:// listener
	tls    string
	cmd    *exec.Cmd
	stdin  io.WriteCloser
	svc    uint32
	obj2   uint32 // id of the second object of the generic service
	exited chan error
}

func c12start(root string) (*c12child, error) { return c12startOpts(root, "") }

func c12startOpts(root, opts string) (*c12child, error) {
	dir, err := os.MkdirTemp(root, "c12-")
	if err != nil {
		return nil, err
	}
	ch := &c12child{dir: dir, exited: make(chan error, 1)}
	ch.cmd = exec.Command(os.Args[0], "c12-server", dir, opts)
	ch.stdin, _ = ch.cmd.StdinPipe()
	stdout, _ := ch.cmd.StdoutPipe()
	errf, _ := os.Create(dir + "/stderr")
	ch.cmd.Stderr = errf
	if err := ch.cmd.Start(); err != nil {
		return nil, err
	}
	errf.Close()
	lineCh := make(chan string, 1)
	go func() { l, _ := bufio.NewReader(stdout).ReadString('\n'); lineCh <- l }()
	select {
	case line := <-lineCh:
		if _, err := fmt.Sscanf(strings.TrimSpace(line), "READY %d %d", &ch.svc, &ch.obj2); err != nil {
			ch.stop()
			return nil, fmt.Errorf("child said %q", line)
		}
		if w := strings.Fields(line); len(w) >= 5 {
			ch.tcp, ch.tls = w[3], w[4]
		}
	case <-time.After(10 * time.Second):
		ch.stop()
		return nil, fmt.Errorf("child did not start")
	}
	go func() { ch.exited <- ch.cmd.Wait() }()
	return ch, nil
}

func (ch *c12child) alive() bool {
	select {
	case err := <-ch.exited:
		ch.exited <- err
		return false
	default:
		return true
	}
}

func (ch *c12child) stop() {
	ch.stdin.Close()
	if ch.cmd.Process != nil {
		ch.cmd.Process.Kill()
	}
	select {
	case <-ch.exited:
	case <-time.After(2 * time.Second):
	}
	os.RemoveAll(ch.dir)
}

// ---- raw client ----

// c12conn: what the raw client needs from a connection (a net.Conn, or the descriptor pair of pipe://)
type c12conn interface {
	io.ReadWriteCloser
	SetReadDeadline(time.Time) error
	SetWriteDeadline(time.Time) error
}

type c12raw struct {
	c      c12conn
	got    [][3]uint32 // type, action, id of every frame received after authentication
	sent   []string    // what was written, for the replay of oracle-only scripts
	hexMax int         // payloads longer than this many hex digits are abbreviated in sent (0: 80)
}

func (r *c12raw) logSent(b []byte) {
	if len(r.sent) > 60 {
		if len(r.sent) == 61 {
			r.sent = append(r.sent, "...")
		}
		return
	}
	off := 0
	for off+28 <= len(b) && len(r.sent) <= 60 {
		if b[off] != 0x42 || b[off+1] != 0xde {
			break
		}
		size := int(binary.LittleEndian.Uint32(b[off+8 : off+12]))
		end := off + 28 + size
		if end > len(b) || size > 1<<20 {
			end = len(b)
		}
		pl := b[off+28 : end]
		hexMax := 80
		if r.hexMax > 0 {
			hexMax = r.hexMax
		}
		if len(pl) > hexMax {
			pl = pl[:hexMax/2+1]
		}
		plx := fmt.Sprintf("%x", pl)
		if len(plx) > hexMax {
			plx = plx[:hexMax] + fmt.Sprintf("..(%d bytes)", end-off-28)
		}
		r.sent = append(r.sent, fmt.Sprintf("{type %d service %d object %d action %d id %d payload %s}", b[off+14],
			binary.LittleEndian.Uint32(b[off+16:off+20]), binary.LittleEndian.Uint32(b[off+20:off+24]),
			binary.LittleEndian.Uint32(b[off+24:off+28]), binary.LittleEndian.Uint32(b[off+4:off+8]), plx))
		off = end
	}
	if off < len(b) {
		x := fmt.Sprintf("%x", b[off:])
		if len(x) > 80 {
			x = x[:80] + fmt.Sprintf("..(%d bytes)", len(b)-off)
		}
		r.sent = append(r.sent, "raw "+x)
	}
}

func c12dial(dir string) (*c12raw, error) {
	c, err := gonet.Dial("unix", dir+"/sock")
	if err != nil {
		return nil, err
	}
	return c12handshake(c, "", "")
}

// c12handshake: the real authentication exchange of a client (bus.ClientCap) on a fresh connection.
// A client is authenticated when service 0 answers with a Reply whose map says "done".
func c12handshake(c c12conn, user, token string) (*c12raw, error) {
	r := &c12raw{c: c}
	body, _ := r.authenticate(1, user, token)
	if body != c12Done {
		c.Close()
		return nil, fmt.Errorf("authentication failed: %s", c12bodyName(body))
	}
	r.sent = nil
	return r, nil
}

const (
	c12NoAnswer = -1
	c12ErrFrame = 0  // an Error frame
	c12Done     = 10 // a Reply whose capability map has __qi_auth_state = 3
	c12Refused  = 11 // ... = 1
	c12OtherRep = 12 // any other Reply
)

func c12bodyName(b int) string {
	return map[int]string{c12NoAnswer: "no answer", c12ErrFrame: "an Error frame", c12Done: "a Reply with state done",
		c12Refused: "a Reply with state error (refused)", c12OtherRep: "a Reply without an authentication state"}[b]
}

// c12body classifies an answer of service 0.
func c12body(m *net.Message) int {
	if m.Header.Type != net.Reply {
		return c12ErrFrame
	}
	cm, err := bus.ReadCapabilityMap(bytes.NewReader(m.Payload))
	if err != nil {
		return c12OtherRep
	}
	var st uint32
	switch v := cm[bus.KeyState].(type) {
	case value.UintValue:
		st = uint32(v)
	case value.IntValue:
		st = uint32(v.Value())
	default:
		return c12OtherRep
	}
	switch st {
	case bus.StateDone:
		return c12Done
	case bus.StateError:
		return c12Refused
	}
	return c12OtherRep
}

// authenticate writes the authenticate call of a real client and classifies the answer; it also
// returns the payload it wrote.
func (r *c12raw) authenticate(id uint32, user, token string) (int, []byte) {
	var buf bytes.Buffer
	bus.WriteCapabilityMap(bus.ClientCap(user, token), &buf)
	if r.writeFrame(net.Call, 0, 0, 8, id, buf.Bytes()) != nil {
		return c12NoAnswer, buf.Bytes()
	}
	dl := time.Now().Add(c12Answer)
	for time.Until(dl) > 0 {
		m, err := r.readFrame(time.Until(dl))
		if err != nil {
			break
		}
		if m.Header.ID == id {
			return c12body(m), buf.Bytes()
		}
	}
	return c12NoAnswer, buf.Bytes()
}

func c12bytes(typ uint8, svc, obj, act, id uint32, payload []byte) []byte {
	m := net.NewMessage(net.NewHeader(typ, svc, obj, act, id), payload)
	var b bytes.Buffer
	m.Write(&b)
	return b.Bytes()
}

func (r *c12raw) write(b []byte, d time.Duration) error {
	r.logSent(b)
	r.c.SetWriteDeadline(time.Now().Add(d))
	_, err := r.c.Write(b)
	return err
}
func (r *c12raw) writeFrame(typ uint8, svc, obj, act, id uint32, payload []byte) error {
	return r.write(c12bytes(typ, svc, obj, act, id, payload), 2*time.Second)
}
func (r *c12raw) readFrame(d time.Duration) (*net.Message, error) {
	r.c.SetReadDeadline(time.Now().Add(d))
	m := new(net.Message)
	err := m.Read(r.c)
	return m, err
}

// talk writes the frames one by one and reads until each one's answer has arrived (or d has
// passed: the probe decides what that means).  It stops at the first unanswered frame.
func (r *c12raw) talk(d time.Duration, frames ...[]byte) {
	for _, b := range frames {
		if r.write(b, time.Second) != nil {
			return
		}
		if len(b) >= 28 && b[14] == net.Call {
			if !r.await(binary.LittleEndian.Uint32(b[4:8]), d) {
				return
			}
		}
	}
}

// await reads frames until the one with this id arrives (everything is logged).
func (r *c12raw) await(id uint32, d time.Duration) bool {
	dl := time.Now().Add(d)
	for {
		left := time.Until(dl)
		if left <= 0 {
			return false
		}
		m, err := r.readFrame(left)
		if err != nil {
			return false
		}
		r.got = append(r.got, [3]uint32{uint32(m.Header.Type), m.Header.Action, m.Header.ID})
		if m.Header.ID == id && m.Header.Type != net.Event {
			return true
		}
	}
}

func c12le32(v uint32) []byte { b := make([]byte, 4); binary.LittleEndian.PutUint32(b, v); return b }
func c12le64(v uint64) []byte { b := make([]byte, 8); binary.LittleEndian.PutUint64(b, v); return b }
func c12str(s string) []byte  { return append(c12le32(uint32(len(s))), s...) }
func c12args(obj, sig uint32, uid uint64) []byte {
	return append(append(c12le32(obj), c12le32(sig)...), c12le64(uid)...)
}
func c12valueStr(s string) []byte { var b bytes.Buffer; value.String(s).Write(&b); return b.Bytes() }
func c12valueInt(i int32) []byte  { var b bytes.Buffer; value.Int(i).Write(&b); return b.Bytes() }

// probe: a fresh client asks (svc, 1) for its meta object.  0 = no answer, 2 = reply, 3 = error.
func c12probe(ch *c12child, svc, obj uint32) int {
	r, err := c12dial(ch.dir)
	if err != nil {
		return 0
	}
	defer r.c.Close()
	r.writeFrame(net.Call, svc, obj, 2, 3, c12le32(obj))
	dl := time.Now().Add(c12Probe)
	for time.Until(dl) > 0 {
		m, err := r.readFrame(time.Until(dl))
		if err != nil {
			return 0
		}
		if m.Header.ID == 3 {
			return int(m.Header.Type)
		}
	}
	return 0
}

// ---- script frames ----

type c12frame struct {
	conn    int
	typ     uint8
	svc     uint32
	obj     uint32
	act     uint32
	id      uint32
	payload []byte
	cls     string // Gallina term of the payload class code (f_pl)
	raw     []byte // instead of a frame: bytes the server cannot read as a frame, then the client closes
	barrier bool
	note    string
}

func c12pack(oid, sig uint32, uid uint64) string {
	// pack_args oid sig uid = 4 + 8*oid + 2^35*sig + 2^67*uid
	return fmt.Sprintf("(pack_args %d %d %d)", oid, sig, uid)
}

const (
	c12PBad      = "0"
	c12PGood     = "1"
	c12PFail     = "2"
	c12PNoAction = "3"
)

func c12emit(sig uint32) string { return fmt.Sprintf("(5 + 8 * %d)", sig) }

// genFrame draws one frame for the compared scripts together with its payload class.  Outcomes
// of the methods are state-independent by construction (names and ids that never exist).
func c12genFrame(rng *hx.Rng, gsvc uint32, id uint32, uids []uint64) c12frame {
	f := c12frame{typ: net.Call, id: id}
	switch rng.Intn(12) {
	case 0:
		f.typ = net.Post
	case 1:
		f.typ = uint8(rng.Pick(int(net.Capability), int(net.Cancel)))
	case 2:
		f.typ = uint8(rng.Pick(int(net.Reply), int(net.Error), int(net.Event), int(net.Cancelled)))
	}
	switch k := rng.Intn(10); {
	case k < 6:
		f.svc = gsvc
	case k < 8:
		f.svc = 1
	case k == 8:
		f.svc = 0
	default:
		f.svc = uint32(rng.Pick(7, 100, 0x7fffffff))
	}
	f.obj = 1
	if f.svc == 0 {
		f.obj = 0
	}
	if rng.Chance(0.1) {
		f.obj = uint32(rng.Pick(0, 5, 0xffffffff))
	}
	if f.svc == gsvc && rng.Chance(0.2) {
		f.obj = 2 // stands for the second object of the generic service (its id is drawn by Service.Add)
	}
	bad := rng.Chance(0.25) // malformed payload
	cut := func(b []byte) []byte {
		if len(b) == 0 {
			return b
		}
		return b[:rng.Intn(len(b))]
	}
	uid := uids[rng.Intn(len(uids))]
	sig := uint32(rng.Pick(200, 201, 9999))
	oid := uint32(1)
	if rng.Chance(0.15) {
		oid = uint32(rng.Pick(0, 2, 77))
	}
	if f.svc == 0 { // the authentication service: a plain actor
		if rng.Chance(0.5) {
			f.act = 8
			var buf bytes.Buffer
			bus.WriteCapabilityMap(bus.ClientCap("", ""), &buf)
			f.payload, f.cls = buf.Bytes(), c12PGood
			if bad {
				f.payload, f.cls = cut(f.payload[:8]), c12PBad
			}
		} else {
			f.act, f.payload, f.cls = uint32(rng.Pick(0, 2, 3, 80, 9999)), rng.Bytes(rng.Intn(12)), c12PNoAction
		}
		return f
	}
	generic := []uint32{0, 0, 0, 1, 1, 2, 3, 5, 6, 7, 8, 80, 81, 82, 83, 84, 85, 4, 9, 9999}
	acts := generic
	if f.svc == 1 {
		acts = append(append([]uint32{}, generic...), 100, 101, 102, 103, 104, 105, 108, 109, 106, 110)
	}
	f.act = acts[rng.Intn(len(acts))]
	switch f.act {
	case 0, 1:
		f.payload, f.cls = c12args(oid, sig, uid), c12pack(oid, sig, uid)
		if bad {
			f.payload, f.cls = cut(f.payload), c12PBad
		}
	case 2, 3:
		if f.act == 3 && rng.Chance(0.7) {
			oid = 77 // most terminate requests name another object: refused
		}
		if f.act == 3 && f.typ == net.Post {
			f.typ = net.Call // (a posted terminate is not followed by an answer that would order it before the next frame)
		}
		f.payload, f.cls = c12le32(oid), c12pack(oid, 0, 0)
		if bad {
			f.payload, f.cls = cut(f.payload), c12PBad
		}
	case 5:
		f.payload, f.cls = c12valueStr("nope"), c12PFail
		if bad {
			f.payload, f.cls = cut(f.payload), c12PBad
		}
	case 6:
		f.payload, f.cls = append(c12valueStr("x"), c12valueInt(3)...), c12PFail
		if bad {
			f.payload, f.cls = cut(f.payload), c12PBad
		}
	case 7, 80, 82, 83, 84:
		f.payload, f.cls = rng.Bytes(rng.Intn(6)), c12PGood
	case 8:
		f.payload, f.cls = append(c12args(1, 200, 5), c12str("(i)")...), c12PFail
		if bad {
			f.payload, f.cls = cut(f.payload), c12PBad
		}
	case 81, 85:
		f.payload, f.cls = []byte{0}, c12PGood
		if bad {
			f.payload, f.cls = nil, c12PBad
		}
	case 100:
		f.payload, f.cls = c12str("nope"), c12PFail
		if bad {
			f.payload, f.cls = cut(f.payload), c12PBad
		}
	case 101, 108:
		f.payload, f.cls = nil, c12PGood
	case 102, 105:
		f.payload, f.cls = cut(c12str("name")), c12PBad
	case 103, 104, 109:
		f.payload, f.cls = c12le32(999), c12PFail
		if bad {
			f.payload, f.cls = cut(f.payload), c12PBad
		}
	default:
		f.payload, f.cls = rng.Bytes(rng.Intn(10)), c12PNoAction
	}
	if f.svc != 1 && f.svc != gsvc { // unknown service: never decoded
		f.cls = c12PBad
	}
	return f
}

func (f c12frame) term() string {
	if f.raw != nil {
		return fmt.Sprintf("(%d%%nat, fr 0 0 0 0 0 0)", f.conn)
	}
	return fmt.Sprintf("(%d%%nat, fr %d %d %d %d %d %s)", f.conn, f.typ, f.svc, f.obj, f.act, f.id, f.cls)
}

type c12run struct {
	frames      []c12frame
	got         [][][3]uint32 // per connection
	stuck       bool
	probes      [3]int // directory, generic object 1, generic object 2
	obj2        uint32
	alive       bool
	removed     [3]bool // the script itself terminated it
	tags        map[string]bool
	name        string
	compared    bool
	victimStuck []int
	sent        string
}

// c12exec runs a compared script: a barrier after every frame.
// c12otherTypesAnswered: do Capability and Cancel frames aimed at an object's method get an answer?
// (observed once per run of the harness; decides which frames need a barrier)
var c12otherTypesAnswered = true

func c12exec(root string, frames []c12frame, nconn int) (*c12run, error) {
	ch, err := c12start(root)
	if err != nil {
		return nil, err
	}
	defer ch.stop()
	run := &c12run{tags: map[string]bool{}, compared: true}
	var conns []*c12raw
	for i := 0; i < nconn; i++ {
		r, err := c12dial(ch.dir)
		if err != nil {
			return nil, err
		}
		defer r.c.Close()
		conns = append(conns, r)
	}
	closed := make([]bool, nconn)
	bid := uint32(100001)
	for _, f := range frames {
		if closed[f.conn] || run.stuck {
			break
		}
		r := conns[f.conn]
		if f.svc == 2 {
			f.svc = ch.svc
			if f.obj == 2 {
				f.obj = ch.obj2
				if strings.HasPrefix(f.cls, "(pack_args 1 ") { // arguments naming "this object"
					var a, b uint32
					var u uint64
					fmt.Sscanf(f.cls, "(pack_args %d %d %d)", &a, &b, &u)
					f.cls = c12pack(ch.obj2, b, u)
					binary.LittleEndian.PutUint32(f.payload[0:4], ch.obj2)
				}
			}
		}
		if f.raw != nil {
			r.write(f.raw, time.Second)
			r.c.Close()
			closed[f.conn] = true
			run.frames = append(run.frames, f)
			time.Sleep(20 * time.Millisecond)
			continue
		}
		r.writeFrame(f.typ, f.svc, f.obj, f.act, f.id, f.payload)
		run.frames = append(run.frames, f)
		if f.typ == net.Call || ((f.typ == net.Capability || f.typ == net.Cancel) && (c12otherTypesAnswered || f.svc == 0)) {
			// every such frame is answered by somebody: its answer closes the step
			if !r.await(f.id, c12Answer) {
				run.stuck = true
			}
			continue
		}
		// Post and the types the server ignores: a barrier call to the same object closes the step
		b := c12frame{conn: f.conn, typ: net.Call, svc: f.svc, obj: f.obj, act: 80, id: bid, barrier: true, cls: c12PGood}
		if f.svc == 0 {
			b.cls = c12PNoAction
		}
		if f.svc != 0 && f.svc != 1 && f.svc != ch.svc {
			b.cls = c12PBad
		}
		bid += 2
		r.writeFrame(b.typ, b.svc, b.obj, b.act, b.id, nil)
		run.frames = append(run.frames, b)
		if !r.await(b.id, c12Answer) {
			run.stuck = true
		}
	}
	for i, r := range conns {
		if !closed[i] {
			r.await(0xfffffff1, 60*time.Millisecond) // whatever is still on its way to this client
		}
		run.got = append(run.got, r.got)
	}
	// the other clients of the script (connections 1..) must still be served: machineId on the directory
	for i, r := range conns {
		if i == 0 || closed[i] {
			continue
		}
		n := len(r.got)
		r.writeFrame(net.Call, 1, 1, 108, 0xfffffff3, nil)
		if !r.await(0xfffffff3, c12Answer) {
			run.victimStuck = append(run.victimStuck, i)
		}
		r.got = r.got[:n]
	}
	run.alive = ch.alive()
	run.probes = [3]int{c12probe(ch, 1, 1), c12probe(ch, ch.svc, 1), c12probe(ch, ch.svc, ch.obj2)}
	run.obj2 = ch.obj2
	run.alive = run.alive && ch.alive()
	for i := range run.frames {
		if run.frames[i].svc == ch.svc {
			run.frames[i].svc = 2
		}
	}
	return run, nil
}

func (run *c12run) caseTerm() string {
	var fs, gs []string
	for _, f := range run.frames {
		fs = append(fs, f.term())
	}
	for _, g := range run.got {
		var l []string
		for _, x := range g {
			l = append(l, fmt.Sprintf("(%d, %d, %d)", x[0], x[1], x[2]))
		}
		gs = append(gs, hx.List(l))
	}
	return fmt.Sprintf("{| h_frames := [%s]%%N; h_got := %s%%N; h_probes := (%d, %d, %d)%%N; h_obj2 := %d%%N |}",
		strings.Join(fs, "; "), hx.List(gs), run.probes[0], run.probes[1], run.probes[2], run.obj2)
}

// ---- oracle-only scripts ----

type c12script struct {
	name string
	tags []string
	// returns which of (directory, generic object 1, generic object 2) the script removed on purpose
	play func(ch *c12child, h *c12raw, rng *hx.Rng) [3]bool
}

func c12validServiceInfo(name string) []byte {
	var b bytes.Buffer
	b.Write(c12str(name))
	b.Write(c12le32(0))
	b.Write(c12str("machine"))
	b.Write(c12le32(42))
	b.Write(c12le32(1))
	b.Write(c12str("tcp://127.0.0.1:1"))
	b.Write(c12str("session"))
	b.Write(c12str("uid"))
	return b.Bytes()
}

func c12scripts() []c12script {
	none := [3]bool{}
	flood := func(n int, act uint32, payload func(i int) []byte) func(*c12child, *c12raw, *hx.Rng) [3]bool {
		return func(ch *c12child, h *c12raw, rng *hx.Rng) [3]bool {
			for i := 0; i < n; i++ {
				if h.write(c12bytes(net.Call, ch.svc, 1, act, uint32(1000+2*i), payload(i)), 300*time.Millisecond) != nil {
					break
				}
			}
			return none
		}
	}
	return []c12script{
		{"burst-40-calls-unread", nil, flood(40, 80, func(int) []byte { return nil })},
		{"flood-2000-metaobject-unread", []string{"write_blocks"}, flood(2000, 2, func(int) []byte { return c12le32(1) })},
		{"flood-registrations-unread", []string{"write_blocks"}, func(ch *c12child, h *c12raw, rng *hx.Rng) [3]bool {
			// registerEvent calls behind a flood: the object needs the endpoint's mutex that dispatch holds while it cannot write
			for i := 0; i < 3000; i++ {
				act, pl := uint32(2), c12le32(1)
				if i%50 == 49 {
					act, pl = 0, c12args(1, 200, uint64(i))
				}
				if h.write(c12bytes(net.Call, ch.svc, 1, act, uint32(1000+2*i), pl), 300*time.Millisecond) != nil {
					break
				}
			}
			return none
		}},
		{"duplicate-registration", []string{"dup_relock"}, func(ch *c12child, h *c12raw, rng *hx.Rng) [3]bool {
			h.writeFrame(net.Call, ch.svc, 1, 0, 11, c12args(1, 200, 7))
			h.await(11, c12Answer)
			h.writeFrame(net.Call, ch.svc, 1, 0, 13, c12args(1, 201, 7))
			h.await(13, 300*time.Millisecond)
			return none
		}},
		{"duplicate-registration-on-directory", []string{"dup_relock"}, func(ch *c12child, h *c12raw, rng *hx.Rng) [3]bool {
			h.writeFrame(net.Call, 1, 1, 0, 11, c12args(1, 106, 9))
			h.await(11, c12Answer)
			h.writeFrame(net.Post, 1, 1, 0, 13, c12args(0, 107, 9))
			time.Sleep(200 * time.Millisecond)
			return none
		}},
		{"hostile-list-count-registerService", []string{"alloc_from_wire"}, func(ch *c12child, h *c12raw, rng *hx.Rng) [3]bool {
			var b bytes.Buffer
			b.Write(c12str("x"))
			b.Write(c12le32(5))
			b.Write(c12str("m"))
			b.Write(c12le32(9))
			b.Write(c12le32(0xffffffff))
			h.writeFrame(net.Call, 1, 1, 102, 11, b.Bytes())
			h.await(11, c12Answer)
			return none
		}},
		{"nested-signature-in-value", []string{"sig_parse_exponential"}, func(ch *c12child, h *c12raw, rng *hx.Rng) [3]bool {
			sig := strings.Repeat("(", 22) + "i" + strings.Repeat(")", 22)
			h.writeFrame(net.Call, ch.svc, 1, 6, 11, append(c12valueStr("x"), c12str(sig)...))
			h.await(11, 300*time.Millisecond)
			return none
		}},
		{"terminate-generic-object", nil, func(ch *c12child, h *c12raw, rng *hx.Rng) [3]bool {
			h.writeFrame(net.Call, ch.svc, 1, 0, 11, c12args(1, 200, 7))
			h.writeFrame(net.Call, ch.svc, 1, 3, 13, c12le32(1))
			h.await(13, c12Answer)
			return [3]bool{false, true, false}
		}},
		{"terminate-behind-a-full-mailbox", nil, func(ch *c12child, h *c12raw, rng *hx.Rng) [3]bool {
			// one burst: slow requests, terminate, then more requests than the mailbox holds — whoever
			// forwards them must not hold a lock the terminate needs
			var b []byte
			for i := 0; i < 6; i++ {
				b = append(b, c12bytes(net.Call, ch.svc, 1, 2, uint32(101+2*i), c12le32(1))...)
			}
			b = append(b, c12bytes(net.Call, ch.svc, 1, 3, 201, c12le32(1))...)
			for i := 0; i < 16; i++ {
				b = append(b, c12bytes(net.Call, ch.svc, 1, 80, uint32(301+2*i), nil)...)
			}
			h.write(b, time.Second)
			h.await(201, c12Answer)
			return [3]bool{false, true, false}
		}},
		{"unregister-another-connections-id-then-register", nil, func(ch *c12child, h *c12raw, rng *hx.Rng) [3]bool {
			// a subscriber S holds id 7; the client unregisters 7 (refused), then registers for itself
			if s, err := c12dial(ch.dir); err == nil {
				defer s.c.Close()
				s.writeFrame(net.Call, ch.svc, 1, 0, 11, c12args(1, 200, 7))
				s.await(11, c12Answer)
			}
			h.writeFrame(net.Call, ch.svc, 1, 1, 11, c12args(1, 200, 7))
			h.await(11, c12Answer)
			h.writeFrame(net.Call, ch.svc, 1, 0, 13, c12args(1, 201, 8))
			h.await(13, c12Short)
			return none
		}},
		{"unregister-another-connections-id-then-emission", nil, func(ch *c12child, h *c12raw, rng *hx.Rng) [3]bool {
			// the same on the directory, followed by a request that makes it emit serviceAdded
			if s, err := c12dial(ch.dir); err == nil {
				defer s.c.Close()
				s.writeFrame(net.Call, 1, 1, 0, 11, c12args(1, 106, 7))
				s.await(11, c12Answer)
			}
			h.writeFrame(net.Call, 1, 1, 1, 11, c12args(1, 106, 7))
			h.await(11, c12Answer)
			h.writeFrame(net.Call, 1, 1, 102, 13, c12validServiceInfo("late-"+fmt.Sprint(rng.Intn(1000))))
			if h.await(13, c12Short) && len(h.got) > 0 {
				h.writeFrame(net.Call, 1, 1, 104, 15, c12le32(3))
				h.await(15, c12Short)
			}
			return none
		}},
		{"traceObject-registered-twice", nil, func(ch *c12child, h *c12raw, rng *hx.Rng) [3]bool {
			// the first registration to signal 0x56 switches tracing on; the second one is received while it is on
			h.talk(c12Short,
				c12bytes(net.Call, 1, 1, 0, 11, c12args(1, 0x56, 1001)),
				c12bytes(net.Call, 1, 1, 0, 13, c12args(1, 0x56, 1002)),
				c12bytes(net.Call, 1, 1, 108, 15, nil),
				c12bytes(net.Call, ch.svc, 1, 0, 17, c12args(1, 0x56, 1001)),
				c12bytes(net.Call, ch.svc, 1, 0, 19, c12args(1, 0x56, 1002)),
				c12bytes(net.Call, ch.svc, 1, 7, 21, nil))
			return none
		}},
		{"tracing-and-statistics-on-then-traffic", nil, func(ch *c12child, h *c12raw, rng *hx.Rng) [3]bool {
			// enableTrace(true), enableStats(true), registrations (also to traceObject itself), then generated requests;
			// the client reads everything it is sent
			var frames [][]byte
			id := uint32(11)
			next := func() uint32 { id += 2; return id }
			// on the directory tracing is switched on first and traceObject registered afterwards; on the generic
			// object the first registration to traceObject switches tracing on and a second one follows
			frames = append(frames,
				c12bytes(net.Call, 1, 1, 85, next(), []byte{1}),
				c12bytes(net.Call, 1, 1, 81, next(), []byte{1}),
				c12bytes(net.Call, 1, 1, 0, next(), c12args(1, 0x56, 2001)),
				c12bytes(net.Call, 1, 1, 0, next(), c12args(1, 106, 3001)),
				c12bytes(net.Call, ch.svc, 1, 0, next(), c12args(1, 0x56, 2001)),
				c12bytes(net.Call, ch.svc, 1, 81, next(), []byte{1}),
				c12bytes(net.Call, ch.svc, 1, 85, next(), []byte{1}),
				c12bytes(net.Call, ch.svc, 1, 0, next(), c12args(1, 0x56, 2002)),
				c12bytes(net.Call, ch.svc, 1, 0, next(), c12args(1, 200, uint64(3000+ch.svc))))
			uids := []uint64{7, 8, 2001, 2002}
			for i := 0; i < 12; i++ {
				f := c12genFrame(rng, ch.svc, next(), uids)
				if f.act == 3 || f.typ != net.Call || f.svc == 0 {
					continue // (no termination here, and only frames that are answered)
				}
				if f.obj == 2 {
					f.obj = ch.obj2
				}
				frames = append(frames, c12bytes(f.typ, f.svc, f.obj, f.act, f.id, f.payload))
			}
			frames = append(frames,
				c12bytes(net.Call, ch.svc, 1, 82, next(), nil),
				c12bytes(net.Call, ch.svc, 1, 1, next(), c12args(1, 200, uint64(3000+ch.svc))),
				c12bytes(net.Call, ch.svc, 1, 85, next(), []byte{0}))
			h.talk(c12Short, frames...)
			return none
		}},
		{"unregister-generic-service", nil, func(ch *c12child, h *c12raw, rng *hx.Rng) [3]bool {
			h.writeFrame(net.Call, 1, 1, 0, 11, c12args(1, 107, 5))
			h.writeFrame(net.Call, 1, 1, 103, 13, c12le32(ch.svc))
			h.await(13, c12Answer)
			return none // the directory forgets the name; the service itself keeps answering
		}},
		{"register-then-disconnect-then-emit", nil, func(ch *c12child, h *c12raw, rng *hx.Rng) [3]bool {
			h.writeFrame(net.Call, 1, 1, 0, 11, c12args(1, 106, 5))
			h.writeFrame(net.Call, 1, 1, 0, 13, c12args(1, 107, 6))
			h.await(13, c12Answer)
			h.c.Close()
			o, err := c12dial(ch.dir)
			if err == nil {
				o.writeFrame(net.Call, 1, 1, 102, 11, c12validServiceInfo("late"))
				o.await(11, c12Answer)
				o.c.Close()
			}
			return none
		}},
		{"disconnect-mid-header", nil, func(ch *c12child, h *c12raw, rng *hx.Rng) [3]bool {
			b := c12bytes(net.Call, ch.svc, 1, 2, 11, c12le32(1))
			h.write(b[:rng.Intn(28)], time.Second)
			h.c.Close()
			return none
		}},
		{"disconnect-mid-payload", nil, func(ch *c12child, h *c12raw, rng *hx.Rng) [3]bool {
			b := c12bytes(net.Call, 1, 1, 102, 11, c12validServiceInfo("half"))
			h.write(b[:28+rng.Intn(len(b)-28)], time.Second)
			h.c.Close()
			return none
		}},
		{"declared-size-larger-than-sent", nil, func(ch *c12child, h *c12raw, rng *hx.Rng) [3]bool {
			b := c12bytes(net.Call, ch.svc, 1, 2, 11, c12le32(1))
			binary.LittleEndian.PutUint32(b[8:12], uint32(rng.Pick(5, 4096, 10*1024*1024)))
			h.write(b, time.Second)
			time.Sleep(100 * time.Millisecond)
			return none
		}},
		{"bad-headers", nil, func(ch *c12child, h *c12raw, rng *hx.Rng) [3]bool {
			b := c12bytes(net.Call, ch.svc, 1, 2, 11, c12le32(1))
			switch rng.Intn(4) {
			case 0:
				b[0] ^= 0xff
			case 1:
				b[14] = uint8(rng.Pick(0, 9, 255))
			case 2:
				binary.LittleEndian.PutUint32(b[8:12], 0xffffffff)
			case 3:
				b[12] = 7
			}
			h.write(b, time.Second)
			h.await(11, 200*time.Millisecond)
			return none
		}},
		{"random-bytes", nil, func(ch *c12child, h *c12raw, rng *hx.Rng) [3]bool {
			h.write(rng.Bytes(1+rng.Intn(200)), time.Second)
			time.Sleep(50 * time.Millisecond)
			return none
		}},
		{"mutated-valid-traffic", nil, func(ch *c12child, h *c12raw, rng *hx.Rng) [3]bool {
			// valid requests with one length/count field or one byte changed (small values only: the
			// decoders' own limits are C07's subject)
			base := [][]byte{
				c12bytes(net.Call, 1, 1, 102, 11, c12validServiceInfo("svc-a")),
				c12bytes(net.Call, 1, 1, 100, 13, c12str("ServiceDirectory")),
				c12bytes(net.Call, ch.svc, 1, 6, 15, append(c12valueStr("x"), c12valueInt(3)...)),
				c12bytes(net.Call, ch.svc, 1, 1, 17, c12args(1, 200, 77)),
				c12bytes(net.Call, 1, 1, 105, 19, c12validServiceInfo("svc-a")),
			}
			for i := 0; i < 30; i++ {
				b := append([]byte(nil), base[rng.Intn(len(base))]...)
				id := uint32(1001 + 2*i)
				binary.LittleEndian.PutUint32(b[4:8], id)
				if len(b) > 32 {
					p := 28 + rng.Intn(len(b)-28)
					switch rng.Intn(3) {
					case 0:
						b[p] = byte(rng.Intn(256))
					case 1: // a 32-bit field set to a small hostile value
						if p+4 <= len(b) {
							binary.LittleEndian.PutUint32(b[p:p+4], uint32(rng.Pick(0, 1, 255, 4096, 65535)))
						}
					case 2: // payload cut, size field adjusted
						b = b[:p]
						binary.LittleEndian.PutUint32(b[8:12], uint32(p-28))
					}
				}
				h.write(b, time.Second)
			}
			h.writeFrame(net.Call, 1, 1, 108, 5001, nil)
			h.await(5001, c12Answer)
			return none
		}},
	}
}

func c12oracleRun(root string, sc c12script, rng *hx.Rng) (*c12run, error) {
	ch, err := c12start(root)
	if err != nil {
		return nil, err
	}
	defer ch.stop()
	h, err := c12dial(ch.dir)
	if err != nil {
		return nil, err
	}
	defer h.c.Close()
	run := &c12run{tags: map[string]bool{}, name: sc.name}
	for _, t := range sc.tags {
		run.tags[t] = true
	}
	run.removed = sc.play(ch, h, rng)
	run.sent = strings.Join(h.sent, " ")
	run.alive = ch.alive()
	run.probes = [3]int{c12probe(ch, 1, 1), c12probe(ch, ch.svc, 1), c12probe(ch, ch.svc, ch.obj2)}
	run.alive = run.alive && ch.alive()
	return run, nil
}

// judge: the property on the implementation's own behaviour.
func (run *c12run) judge(res *hx.Result, sw map[string]bool, desc string) {
	key := ""
	for _, k := range []string{"dup_relock", "write_blocks", "alloc_from_wire", "sig_parse_exponential", "stale_closer"} {
		if run.tags[k] && sw[k] {
			key = k
		}
	}
	fail := func(kind, detail string) {
		if key != "" {
			res.FailKnown(kind, detail, key)
		} else {
			res.Fail(kind, detail)
		}
	}
	if !run.alive {
		fail("server-died", "the server process exited during: "+desc)
	}
	for _, i := range run.victimStuck {
		fail("other-client-stuck", fmt.Sprintf("connection %d of the script (another client) gets no answer from the service directory any more; script: %s", i, desc))
	}
	names := []string{"the service directory (service 1, object 1)", "the generic object (service 2, object 1)", "the second object of the generic service (service 2)"}
	for i, p := range run.probes {
		if run.removed[i] {
			continue
		}
		if p != int(net.Reply) {
			fail("probe-unanswered", fmt.Sprintf("after the script, %s gave a fresh client %s to metaObject within %v; script: %s",
				names[i], map[int]string{0: "no answer", 3: "an error"}[p], c12Probe, desc))
		}
	}
}

func runC12(res *hx.Result, rng *hx.Rng, tier string, outdir string) {
	res.Rule = "scripts of raw frames from one authenticated client (all 8 message types, services 0/1/2/unknown, objects, every generic and directory action, " +
		"valid / cut / wrong-object payloads, duplicate and conflicting registrations, terminate, floods, disconnects mid-message) against a server in a child process, then a probe client; " +
		"volleys of authenticate calls with wrong / wrongly typed / empty / cut / huge credentials aimed at service 0 from authenticated and not yet authenticated connections, several volleys per server, " +
		"then fresh clients with valid credentials that must authenticate and be answered by every object; clients gone before their answers are written on unix/tcp/tcps/pipe, then fresh clients on every transport; " +
		"hostile dynamic values (zero-width element containers with huge counts, unknown / unclosed / deep / huge signatures) in authenticate, setProperty and property requests, and hostile peers on every listener (garbage, silence, half a TLS hello, held or closed), then fresh clients on every transport; " +
		"non-trivial = the script contains a malformed or conflicting request; distinct by sha256 of the frames"
	root := os.Getenv("VERIF_ROOT")
	if root == "" {
		root = "."
	}
	root += "/_build/c12tmp"
	os.MkdirAll(root, 0o755)
	defer os.RemoveAll(root)
	nCompared, rounds := 60, 1
	if tier == "thorough" {
		nCompared, rounds = 2500, 8
	}

	// ---- defect switches ----
	sw := map[string]bool{}
	probeSwitch := func(name string, on func(*c12run) bool, what string) *c12run {
		for _, sc := range c12scripts() {
			if sc.name != name {
				continue
			}
			run, err := c12oracleRun(root, sc, rng)
			if err != nil {
				res.Notes = append(res.Notes, "switch probe "+name+": "+err.Error())
				return nil
			}
			for _, t := range sc.tags {
				sw[t] = on(run)
				res.Switch(t, sw[t], what)
			}
			return run
		}
		return nil
	}
	dead := func(r *c12run) bool { return r.probes[1] != int(net.Reply) || !r.alive }
	_ = dead
	probeSwitch("duplicate-registration", dead, "registerEvent twice with user id 7 on one connection (service 2, object 1): the second call is never answered and the object answers nobody any more")
	probeSwitch("flood-2000-metaobject-unread", dead, "2000 metaObject calls sent without reading the answers: the object's goroutine blocks in its write; a fresh client gets no answer")
	probeSwitch("hostile-list-count-registerService", func(r *c12run) bool { return !r.alive || r.probes[0] != int(net.Reply) }, "registerService whose Endpoints count is 0xffffffff: the generated decoder allocates from the wire count; the server process dies")
	probeSwitch("nested-signature-in-value", dead, "setProperty with a value whose signature nests 22 parentheses: signature.Parse is exponential; the object's goroutine is busy for minutes")
	// registrations still queued when their connection ends (c12burst.go); a race, so the probe repeats
	if hit, n, sent := c12staleCloserProbe(root, 60); true {
		sw["stale_closer"] = hit
		what := c12staleCloserWhat
		if hit {
			what += fmt.Sprintf("; here at attempt %d: after 120 answered registerEvent calls the client wrote in one write and closed: %s", n, sent)
		}
		res.Switch("stale_closer", hit, what)
	}
	// frames pipelined behind the authenticate request (c12auth.go); a race, so the probe runs for a while
	{
		d := 2500 * time.Millisecond
		if tier == "thorough" {
			d = 20 * time.Second
		}
		hit, n, note := c12authRaceProbe(root, d)
		what := c12authRaceWhat
		if hit {
			what += "; here: " + note
		}
		res.Switch("auth_state_race", hit, what)
		res.Distribution["auth-race-probe-connections"] = n
	}
	// terminated object still answering (C16's subject; only needed to evaluate the model faithfully)
	removedAnswers := true
	if ch, err := c12start(root); err == nil {
		if h, err := c12dial(ch.dir); err == nil {
			h.writeFrame(net.Call, ch.svc, 1, 3, 13, c12le32(1))
			h.await(13, c12Answer)
			removedAnswers = c12probe(ch, ch.svc, 1) == int(net.Reply)
			h.c.Close()
		}
		ch.stop()
	}
	// ids compared without the connection?  a victim registers id 7, the hostile client too
	uidGlobal := true
	if ch, err := c12start(root); err == nil {
		v, err1 := c12dial(ch.dir)
		h, err2 := c12dial(ch.dir)
		if err1 == nil && err2 == nil {
			v.writeFrame(net.Call, ch.svc, 1, 0, 11, c12args(1, 200, 7))
			v.await(11, c12Answer)
			h.writeFrame(net.Call, ch.svc, 1, 0, 11, c12args(1, 200, 7))
			ok := h.await(11, 400*time.Millisecond)
			uidGlobal = !ok || h.got[len(h.got)-1][0] != uint32(net.Reply)
			v.c.Close()
			h.c.Close()
		}
		ch.stop()
	}
	// Capability / Cancel frames aimed at a method: executed and answered (C04's subject; only to evaluate the model)
	if ch, err := c12start(root); err == nil {
		if h, err := c12dial(ch.dir); err == nil {
			h.writeFrame(net.Cancel, ch.svc, 1, 80, 13, nil)
			c12otherTypesAnswered = h.await(13, 400*time.Millisecond)
			h.c.Close()
		}
		ch.stop()
	}
	cfg := fmt.Sprintf("Definition g : hcfg := {| h_dup_relock := %s; h_uid_global := %s; h_write_blocks := %s; h_removed_answers := %s; h_other_types_run := %s |}.",
		hx.Bool(sw["dup_relock"]), hx.Bool(uidGlobal), hx.Bool(sw["write_blocks"]), hx.Bool(removedAnswers), hx.Bool(c12otherTypesAnswered))
	cf := hx.NewCases(outdir, "C12", "From QV Require Import Hostile C12Run.", "hmismatches g cases", res, "cases", "hcase")
	cf.Extra = append(cf.Extra, cfg)

	// ---- compared scripts ----
	compared := func(frames []c12frame, nconn int, name string, tags ...string) {
		run, err := c12exec(root, frames, nconn)
		if err != nil {
			res.Notes = append(res.Notes, name+": "+err.Error())
			return
		}
		for _, t := range tags {
			run.tags[t] = true
		}
		var ds []string
		nontrivial := false
		for _, f := range run.frames {
			if !f.barrier {
				ds = append(ds, f.term())
				if f.cls == c12PBad || f.raw != nil || f.act == 0 || f.act == 1 || f.act == 3 {
					nontrivial = true
				}
			}
			if f.act == 3 && f.svc == 2 && f.obj == run.obj2 && (strings.HasPrefix(f.cls, fmt.Sprintf("(pack_args %d ", run.obj2)) || strings.HasPrefix(f.cls, "(pack_args 0 ")) &&
				f.typ != net.Reply && f.typ != net.Error && f.typ != net.Event && f.typ != net.Cancelled {
				run.removed[2] = true
			}
			if f.act == 3 && strings.HasPrefix(f.cls, "(pack_args 1 ") || f.act == 3 && strings.HasPrefix(f.cls, "(pack_args 0 ") {
				if f.svc == 1 && f.obj == 1 && f.typ != net.Reply && f.typ != net.Error && f.typ != net.Event && f.typ != net.Cancelled {
					run.removed[0] = true
				}
				if f.svc == 2 && f.obj == 1 && f.typ != net.Reply && f.typ != net.Error && f.typ != net.Event && f.typ != net.Cancelled {
					run.removed[1] = true
				}
			}
		}
		desc := name + ": " + strings.Join(ds, "; ")
		run.judge(res, sw, desc)
		res.Count(desc, nontrivial)
		res.Dist("kind:" + name)
		res.Sample(fmt.Sprintf("%s: %d frames, probes %v, stuck %v", name, len(ds), run.probes, run.stuck))
		cf.Add("cases", run.caseTerm(), desc)
	}
	// scripted: the witnesses and the exceptions
	compared([]c12frame{
		{typ: net.Call, svc: 2, obj: 1, act: 0, id: 11, payload: c12args(1, 200, 7), cls: c12pack(1, 200, 7)},
		{typ: net.Call, svc: 2, obj: 1, act: 0, id: 13, payload: c12args(1, 200, 7), cls: c12pack(1, 200, 7)},
		{typ: net.Call, svc: 2, obj: 1, act: 2, id: 15, payload: c12le32(1), cls: c12pack(1, 0, 0)},
	}, 1, "scripted-duplicate-registration", "dup_relock")
	compared([]c12frame{
		{conn: 1, typ: net.Call, svc: 2, obj: 1, act: 0, id: 11, payload: c12args(1, 200, 7), cls: c12pack(1, 200, 7)},
		{conn: 0, typ: net.Call, svc: 2, obj: 1, act: 0, id: 13, payload: c12args(1, 201, 7), cls: c12pack(1, 201, 7)},
		{conn: 1, typ: net.Call, svc: 2, obj: 1, act: 2, id: 15, payload: c12le32(1), cls: c12pack(1, 0, 0)},
	}, 2, "scripted-victim-id-clash", "dup_relock")
	compared([]c12frame{
		{conn: 1, typ: net.Call, svc: 2, obj: 1, act: 0, id: 11, payload: c12args(1, 200, 7), cls: c12pack(1, 200, 7)},
		{conn: 0, typ: net.Call, svc: 2, obj: 1, act: 0, id: 13, payload: c12args(1, 200, 8), cls: c12pack(1, 200, 8)},
		{conn: 0, typ: net.Call, svc: 2, obj: 1, act: 3, id: 15, payload: c12le32(1), cls: c12pack(1, 0, 0)},
		{conn: 0, typ: net.Call, svc: 2, obj: 1, act: 2, id: 17, payload: c12le32(1), cls: c12pack(1, 0, 0)},
		{conn: 0, typ: net.Call, svc: 1, obj: 1, act: 108, id: 19, cls: c12PGood},
	}, 2, "scripted-terminate-with-subscribers")
	compared([]c12frame{
		{typ: net.Call, svc: 1, obj: 1, act: 0, id: 11, payload: c12args(1, 107, 5), cls: c12pack(1, 107, 5)},
		{typ: net.Call, svc: 1, obj: 1, act: 103, id: 13, payload: c12le32(2), cls: c12emit(107)},
		{typ: net.Call, svc: 2, obj: 1, act: 2, id: 15, payload: c12le32(1), cls: c12pack(1, 0, 0)},
		{typ: net.Call, svc: 1, obj: 1, act: 1, id: 17, payload: c12args(1, 107, 5), cls: c12pack(1, 107, 5)},
		{typ: net.Call, svc: 1, obj: 1, act: 1, id: 19, payload: c12args(1, 107, 5), cls: c12pack(1, 107, 5)},
	}, 1, "scripted-unregister-service")
	compared([]c12frame{
		{typ: net.Call, svc: 2, obj: 1, act: 0, id: 11, payload: c12args(1, 200, 7), cls: c12pack(1, 200, 7)},
		{typ: net.Post, svc: 2, obj: 1, act: 2, id: 13, payload: c12le32(1), cls: c12pack(1, 0, 0)},
		{raw: []byte{0x42, 0xde, 0xad, 0x42, 1, 2, 3}},
	}, 1, "scripted-disconnect-mid-header")
	// another connection's user id: refused, and everything goes on
	compared([]c12frame{
		{conn: 1, typ: net.Call, svc: 2, obj: 1, act: 0, id: 11, payload: c12args(1, 200, 7), cls: c12pack(1, 200, 7)},
		{conn: 0, typ: net.Call, svc: 2, obj: 1, act: 1, id: 13, payload: c12args(1, 200, 7), cls: c12pack(1, 200, 7)},
		{conn: 0, typ: net.Call, svc: 2, obj: 1, act: 0, id: 15, payload: c12args(1, 201, 8), cls: c12pack(1, 201, 8)},
		{conn: 1, typ: net.Call, svc: 2, obj: 1, act: 1, id: 17, payload: c12args(1, 200, 7), cls: c12pack(1, 200, 7)},
		{conn: 0, typ: net.Call, svc: 2, obj: 1, act: 2, id: 19, payload: c12le32(1), cls: c12pack(1, 0, 0)},
	}, 2, "scripted-unregister-foreign-id")
	compared([]c12frame{
		{conn: 1, typ: net.Call, svc: 1, obj: 1, act: 0, id: 11, payload: c12args(1, 107, 5), cls: c12pack(1, 107, 5)},
		{conn: 0, typ: net.Call, svc: 1, obj: 1, act: 1, id: 13, payload: c12args(1, 107, 5), cls: c12pack(1, 107, 5)},
		{conn: 0, typ: net.Call, svc: 1, obj: 1, act: 103, id: 15, payload: c12le32(2), cls: c12emit(107)},
		{conn: 0, typ: net.Call, svc: 1, obj: 1, act: 108, id: 17, cls: c12PGood},
	}, 2, "scripted-unregister-foreign-id-then-emission")
	for i := 0; i < nCompared; i++ {
		n := 4 + rng.Intn(10)
		nconn := 1 + rng.Intn(2)
		uids := []uint64{7, 8, uint64(9 + rng.Intn(3))}
		var frames []c12frame
		dup := map[uint64]bool{}
		tags := []string{}
		focused := i%3 == 2 // two clients, registrations and removals with two ids on the generic object, some emissions on the directory
		if focused {
			nconn = 2
		}
		for j := 0; j < n; j++ {
			f := c12genFrame(rng, 2, uint32(11+2*j), uids)
			f.conn = rng.Intn(nconn)
			if focused {
				uid, sig := uint64(7+rng.Intn(2)), uint32(200+rng.Intn(2))
				f = c12frame{conn: f.conn, typ: net.Call, svc: 2, obj: 1, act: uint32(rng.Intn(2)), id: f.id,
					payload: c12args(1, sig, uid), cls: c12pack(1, sig, uid)}
				if rng.Chance(0.15) {
					f.act, f.payload, f.cls = 2, c12le32(1), c12pack(1, 0, 0)
				}
			}
			if f.act == 0 && strings.HasPrefix(f.cls, "(pack_args") && (f.svc == 1 || f.svc == 2) && (f.obj == 1 || f.obj == 2) {
				var a, b uint32
				var u uint64
				fmt.Sscanf(f.cls, "(pack_args %d %d %d)", &a, &b, &u)
				k := u*8 + uint64(f.svc)*2 + uint64(f.obj-1)
				if a == 0 || a == 1 { // otherwise refused before the table is consulted
					if dup[k] {
						tags = append(tags, "dup_relock")
					}
					dup[k] = true
				}
			}
			frames = append(frames, f)
		}
		if rng.Chance(0.15) {
			frames = append(frames, c12frame{conn: rng.Intn(nconn), raw: rng.Bytes(1 + rng.Intn(40))})
		}
		compared(frames, nconn, "generated", tags...)
	}
	if tier == "thorough" {
		// all pairs of generic-object requests with conflicting arguments, sent by one client or by two
		res.Exhaustive = true
		alpha := []struct {
			act    uint32
			oid    uint32
			sig    uint32
			uid    uint64
			broken bool
		}{
			{0, 1, 200, 7, false}, {0, 1, 201, 7, false}, {0, 1, 200, 8, false}, {0, 77, 200, 7, false}, {0, 1, 200, 7, true},
			{1, 1, 200, 7, false}, {1, 1, 200, 8, false}, {1, 1, 200, 7, true},
			{3, 1, 0, 0, false}, {3, 77, 0, 0, false}, {2, 1, 0, 0, false}, {2, 77, 0, 0, false},
		}
		mk := func(i int, conn int, id uint32) c12frame {
			a := alpha[i]
			f := c12frame{conn: conn, typ: net.Call, svc: 2, obj: 1, act: a.act, id: id}
			switch a.act {
			case 0, 1:
				f.payload, f.cls = c12args(a.oid, a.sig, a.uid), c12pack(a.oid, a.sig, a.uid)
			default:
				f.payload, f.cls = c12le32(a.oid), c12pack(a.oid, 0, 0)
			}
			if a.broken {
				f.payload, f.cls = f.payload[:3], c12PBad
			}
			return f
		}
		for i := range alpha {
			for j := range alpha {
				for second := 0; second < 2; second++ {
					tags := []string{}
					if alpha[i].act == 0 && alpha[j].act == 0 && !alpha[i].broken && !alpha[j].broken &&
						alpha[i].oid == 1 && alpha[j].oid == 1 && alpha[i].uid == alpha[j].uid {
						tags = append(tags, "dup_relock")
					}
					third := c12frame{typ: net.Call, svc: 2, obj: 1, act: 0, id: 15, payload: c12args(1, 201, 9), cls: c12pack(1, 201, 9)}
					compared([]c12frame{mk(i, 0, 11), mk(j, second, 13), third, mk(10, 0, 17)}, 1+second, "exhaustive-pairs", tags...)
				}
			}
		}
	}
	cf.Flush()

	// ---- bursts with the message type varied (c12burst.go) ----
	t0 := time.Now()
	phase := func(name string) {
		res.Distribution["seconds-x10:"+name] = int(time.Since(t0).Seconds() * 10)
		t0 = time.Now()
	}
	phase("switch-probes-and-compared-scripts")
	c12bursts(res, rng, root, outdir, cfg, sw, rounds)
	phase("type-bursts")

	// ---- hostile traffic aimed at service 0 itself, then fresh clients that have to authenticate (c12svc0.go) ----
	c12svc0(res, rng, root, outdir, rounds)
	phase("service-0-volleys")

	// ---- clients gone before their answers are written, on every transport, then fresh clients on every transport (c12lost.go) ----
	c12lost(res, rng, root, outdir, cfg, rounds)
	phase("lost-replies")

	// ---- hostile dynamic values in every request that carries one, hostile behaviour on every listener, then fresh clients (c12hostile.go) ----
	c12hostile(res, rng, root, outdir, cfg, rounds)
	phase("hostile-values-and-transports")

	// ---- oracle-only scripts ----
	for round := 0; round < rounds; round++ {
		for _, sc := range c12scripts() {
			run, err := c12oracleRun(root, sc, rng)
			if err != nil {
				res.Notes = append(res.Notes, sc.name+": "+err.Error())
				continue
			}
			run.judge(res, sw, sc.name+": the client sent "+run.sent)
			res.Count(fmt.Sprintf("%s#%d", sc.name, round), true)
			res.Dist("kind:" + sc.name)
			res.Sample(fmt.Sprintf("%s: alive %v probes %v", sc.name, run.alive, run.probes))
		}
	}
}
