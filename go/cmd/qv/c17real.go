package main

// C17, real transports and every handler flavour (added after seeded/C17_r6brk1 and seeded/C17_r6brk2).
//
// The operation sequences of c17.go run on a harness-owned Stream and register handlers with MakeHandler only.
// The scenarios of this file use the endpoint the way a program does: the stream is one of the package's own
// wrappers (net.ConnStream over net.Pipe / a TCP connection / a unix socket, net.PipeStream over two os pipes),
// the handlers are registered with MakeHandler, AddHandler and ReceiveAny in every legal argument shape (nil
// close callback, queue of capacity 0 / 1 / 3, one-shot filters), and they are closed in every way there is
// (Close, Close twice, the peer closing, Close racing with the peer closing, RemoveHandler, the filter answering
// keep == false) — also while a writer is blocked inside the stream's Write because the peer does not read (a
// Send from another goroutine, two of them, or the Error reply dispatch writes under the table mutex for a Call
// whose queue is full).
//
// Oracles (implementation side only; Endpoint.v has no notion of the stream wrappers nor of AddHandler's
// forwarding goroutine): no panic, every operation returns within the deadline, every handler ends closed exactly
// once (close callback once when there is one, with nil / the read error; queue closed; nothing selected after the
// callback), the blocked Send fails, RemoveHandler answers nil exactly once per registered id, consumers got every
// message that was selected for them before the end.

import (
	"bufio"
	"encoding/json"
	"fmt"
	"io"
	"log"
	gonet "net"
	"os"
	"os/exec"
	"path/filepath"
	"strconv"
	"strings"
	"sync"
	"sync/atomic"
	"time"

	"github.com/lugu/qiloop/bus/net"
	"qv/internal/hx"
)

type rshape struct {
	Kind      string // MakeHandler | AddHandler | ReceiveAny
	Cap       int    // MakeHandler: capacity of the queue
	NilCloser bool
	OneShot   bool // the filter answers keep == false on the message with action 9
}

func (s rshape) String() string {
	if s.Kind == "ReceiveAny" {
		return "ReceiveAny()"
	}
	f := "filter(selects everything, keep)"
	if s.OneShot {
		f = "filter(selects everything, keep == false on action 9)"
	}
	cl := "recording closer"
	if s.NilCloser {
		cl = "nil closer"
	}
	if s.Kind == "AddHandler" {
		return fmt.Sprintf("AddHandler(%s, consumer, %s)", f, cl)
	}
	return fmt.Sprintf("MakeHandler(%s, queue of capacity %d, %s)", f, s.Cap, cl)
}

type realCase struct {
	Transport string // net.Pipe | tcp | unix | os-pipe
	Ctor      string // EndPointFinalizer | NewEndPoint | ConnEndPoint
	Shapes    []rshape
	Traffic   int    // events (action 1) the peer sends before the end, each awaited
	Block     string // "" | send | two-sends | call-reply
	End       string // Close | Close-twice | peer-close | Close-and-peer-close | remove-all-then-Close | one-shot-message-then-Close
}

func (c realCase) String() string {
	var hs []string
	for _, s := range c.Shapes {
		hs = append(hs, s.String())
	}
	stream := map[string]string{
		"net.Pipe": "net.ConnStream(net.Pipe)", "tcp": "net.ConnStream(TCP connection on 127.0.0.1)",
		"unix": "net.ConnStream(unix socket connection)", "os-pipe": "net.PipeStream(two os.Pipe)",
	}[c.Transport]
	blk := map[string]string{
		"":           "",
		"send":       "; then e.Send from another goroutine blocked in the stream's Write (the peer does not read)",
		"two-sends":  "; then e.Send from two goroutines blocked in the stream's Write (the peer does not read)",
		"call-reply": "; then the peer sends Calls and does not read: dispatch blocked, under the table mutex, in the Write of the Error reply for the full queue",
	}[c.Block]
	return fmt.Sprintf("real-stream: %s on %s; handlers [%s]; %d events from the peer%s; end: %s",
		c.Ctor, stream, strings.Join(hs, "; "), c.Traffic, blk, c.End)
}

var (
	shMake3     = rshape{Kind: "MakeHandler", Cap: 3}
	shMake0Nil  = rshape{Kind: "MakeHandler", Cap: 0, NilCloser: true}
	shMake0     = rshape{Kind: "MakeHandler", Cap: 0}
	shMake1Nil1 = rshape{Kind: "MakeHandler", Cap: 1, NilCloser: true, OneShot: true}
	shAdd       = rshape{Kind: "AddHandler"}
	shAddNil    = rshape{Kind: "AddHandler", NilCloser: true}
	shAdd1      = rshape{Kind: "AddHandler", OneShot: true}
	shAddNil1   = rshape{Kind: "AddHandler", NilCloser: true, OneShot: true}
	shAny       = rshape{Kind: "ReceiveAny"}
)

var realAllShapes = []rshape{shMake3, shMake0Nil, shAdd, shAddNil, shAny, shAddNil1, shAdd1, shMake1Nil1}

var realEnds = []string{"Close", "Close-twice", "peer-close", "Close-and-peer-close", "remove-all-then-Close", "one-shot-message-then-Close"}

var realCasesMemo []realCase

func realCases(tier string) []realCase {
	if realCasesMemo != nil {
		return realCasesMemo
	}
	var cs []realCase
	// (1) one handler of every flavour and shape, alone, closed in every way
	for _, sh := range realAllShapes {
		for _, end := range realEnds {
			if end == "Close-twice" || end == "Close-and-peer-close" {
				continue
			}
			cs = append(cs, realCase{Transport: "net.Pipe", Ctor: "EndPointFinalizer", Shapes: []rshape{sh}, Traffic: 1, End: end})
		}
	}
	// all of them on one endpoint, every constructor, with and without traffic
	for _, ctor := range []string{"EndPointFinalizer", "NewEndPoint", "ConnEndPoint"} {
		for _, end := range realEnds {
			for _, tr := range []int{0, 2} {
				cs = append(cs, realCase{Transport: "net.Pipe", Ctor: ctor, Shapes: realAllShapes, Traffic: tr, End: end})
			}
		}
	}
	// (2) every stream wrapper; a writer blocked in Write, then every shutdown
	for _, tp := range []string{"net.Pipe", "tcp", "unix", "os-pipe"} {
		cs = append(cs, realCase{Transport: tp, Ctor: "NewEndPoint", Shapes: realAllShapes, Traffic: 2, End: "Close"})
		cs = append(cs, realCase{Transport: tp, Ctor: "EndPointFinalizer", Shapes: realAllShapes, Traffic: 1, End: "peer-close"})
		for _, blk := range []string{"send", "two-sends", "call-reply"} {
			for _, end := range []string{"Close", "peer-close", "Close-and-peer-close"} {
				shapes := []rshape{shMake3, shAddNil, shMake0Nil, shAdd}
				tr := 1
				if blk == "call-reply" {
					shapes = []rshape{shMake3, shAddNil, shMake0, shAdd}
					tr = 0 // the Make0 handler drops events too; traffic is the Calls
				}
				cs = append(cs, realCase{Transport: tp, Ctor: "EndPointFinalizer", Shapes: shapes, Traffic: tr, Block: blk, End: end})
			}
		}
	}
	if tier == "thorough" {
		for _, tp := range []string{"tcp", "unix", "os-pipe"} {
			for _, ctor := range []string{"EndPointFinalizer", "NewEndPoint"} {
				for _, end := range realEnds {
					cs = append(cs, realCase{Transport: tp, Ctor: ctor, Shapes: realAllShapes, Traffic: 3, End: end})
				}
			}
			for _, sh := range realAllShapes {
				for _, blk := range []string{"send", "two-sends"} {
					for _, end := range []string{"Close", "peer-close", "Close-and-peer-close", "Close-twice"} {
						cs = append(cs, realCase{Transport: tp, Ctor: "NewEndPoint", Shapes: []rshape{sh}, Traffic: 0, Block: blk, End: end})
					}
				}
			}
		}
	}
	realCasesMemo = cs
	return cs
}

// ---------- transports ----------

type rwc struct {
	io.Reader
	io.Writer
	close func()
}

func (p rwc) Close() error { p.close(); return nil }

var realSeq int

// realTransport returns the endpoint's side (a Stream built by the package's own wrapper, and the connection when
// there is one) and the peer's side.
func realTransport(kind string) (st net.Stream, conn gonet.Conn, peer io.ReadWriteCloser, cleanup func(), err error) {
	cleanup = func() {}
	small := func(c gonet.Conn) {
		type bufs interface {
			SetReadBuffer(int) error
			SetWriteBuffer(int) error
		}
		if b, ok := c.(bufs); ok {
			b.SetReadBuffer(8192)
			b.SetWriteBuffer(8192)
		}
	}
	switch kind {
	case "net.Pipe":
		a, b := gonet.Pipe()
		return net.ConnStream(a), a, b, cleanup, nil
	case "tcp", "unix":
		addr := "127.0.0.1:0"
		if kind == "unix" {
			dir, e := os.MkdirTemp("", "qv-c17-")
			if e != nil {
				return nil, nil, nil, cleanup, e
			}
			cleanup = func() { os.RemoveAll(dir) }
			addr = filepath.Join(dir, "s")
		}
		l, e := gonet.Listen(kind, addr)
		if e != nil {
			return nil, nil, nil, cleanup, e
		}
		defer l.Close()
		type acc struct {
			c gonet.Conn
			e error
		}
		ch := make(chan acc, 1)
		go func() { c, e := l.Accept(); ch <- acc{c, e} }()
		b, e := gonet.DialTimeout(kind, l.Addr().String(), 3*time.Second)
		if e != nil {
			return nil, nil, nil, cleanup, e
		}
		select {
		case a := <-ch:
			if a.e != nil {
				b.Close()
				return nil, nil, nil, cleanup, a.e
			}
			small(a.c)
			small(b)
			return net.ConnStream(a.c), a.c, b, cleanup, nil
		case <-time.After(3 * time.Second):
			b.Close()
			return nil, nil, nil, cleanup, fmt.Errorf("accept timed out")
		}
	case "os-pipe":
		r1, w1, e := os.Pipe()
		if e != nil {
			return nil, nil, nil, cleanup, e
		}
		r2, w2, e := os.Pipe()
		if e != nil {
			return nil, nil, nil, cleanup, e
		}
		return net.PipeStream(r1, w2), nil, rwc{r2, w1, func() { r2.Close(); w1.Close() }}, cleanup, nil
	}
	return nil, nil, nil, cleanup, fmt.Errorf("unknown transport %s", kind)
}

// ---------- one registered handler ----------

type rhandler struct {
	sh       rshape
	id       int
	queue    chan *net.Message // MakeHandler, ReceiveAny: the harness is the consumer
	mu       sync.Mutex
	got      []uint32 // AddHandler: ids handed to the consumer
	selected []uint32 // ids the filter selected
	lateSel  int      // filter consulted after the close callback began
	closerN  int32
	closerE  []error
	left     bool // the handler left through keep == false (harness's expectation)
}

func (h *rhandler) filter(hdr *net.Header) (bool, bool) {
	h.mu.Lock()
	defer h.mu.Unlock()
	if atomic.LoadInt32(&h.closerN) > 0 {
		h.lateSel++
	}
	h.selected = append(h.selected, hdr.ID)
	return true, !(h.sh.OneShot && hdr.Action == 9)
}

func (h *rhandler) closer(err error) {
	h.mu.Lock()
	h.closerE = append(h.closerE, err)
	h.mu.Unlock()
	atomic.AddInt32(&h.closerN, 1)
}

func (h *rhandler) consumer(m *net.Message) error {
	h.mu.Lock()
	defer h.mu.Unlock()
	h.got = append(h.got, m.Header.ID)
	return nil
}

func (h *rhandler) gotN() int {
	h.mu.Lock()
	defer h.mu.Unlock()
	return len(h.got)
}

func (h *rhandler) name(i int) string { return fmt.Sprintf("handler #%d = %s", i, h.sh.String()) }

type realObs struct {
	Real  int      `json:"real"`
	Desc  string   `json:"desc"`
	Fails []string `json:"fails"`
	Tags  []string `json:"tags"`
}

const realBigPayload = 16 << 20

// runReal runs one scenario.
func runReal(idx int, c realCase) *realObs {
	o := &realObs{Real: idx, Desc: c.String()}
	fail := func(format string, a ...interface{}) { o.Fails = append(o.Fails, fmt.Sprintf(format, a...)) }
	st, conn, peer, cleanup, err := realTransport(c.Transport)
	defer cleanup()
	if err != nil {
		o.Tags = append(o.Tags, "real:transport-unavailable:"+c.Transport)
		return o
	}
	defer peer.Close()
	o.Tags = append(o.Tags, "real:transport:"+c.Transport, "real:end:"+c.End)
	if c.Block != "" {
		o.Tags = append(o.Tags, "real:blocked-writer:"+c.Block+":"+c.Transport)
	}

	var hs []*rhandler
	sentinel := &rhandler{sh: rshape{Kind: "MakeHandler", Cap: 64}}
	register := func(e net.EndPoint) {
		for _, sh := range c.Shapes {
			h := &rhandler{sh: sh, id: -1}
			switch sh.Kind {
			case "ReceiveAny":
				q, err := e.ReceiveAny()
				if err != nil || q == nil {
					fail("ReceiveAny() = %v, %v", q, err)
					q = make(chan *net.Message)
				}
				h.queue = q
				o.Tags = append(o.Tags, "real:shape:ReceiveAny")
			case "AddHandler":
				if sh.NilCloser {
					h.id = e.AddHandler(h.filter, h.consumer, nil)
					o.Tags = append(o.Tags, "real:shape:AddHandler-nil-closer")
				} else {
					h.id = e.AddHandler(h.filter, h.consumer, h.closer)
					o.Tags = append(o.Tags, "real:shape:AddHandler-closer")
				}
			default:
				h.queue = make(chan *net.Message, sh.Cap)
				if sh.NilCloser {
					h.id = e.MakeHandler(h.filter, h.queue, nil)
					o.Tags = append(o.Tags, "real:shape:MakeHandler-nil-closer")
				} else {
					h.id = e.MakeHandler(h.filter, h.queue, h.closer)
					o.Tags = append(o.Tags, "real:shape:MakeHandler-closer")
				}
				if sh.Cap == 0 {
					o.Tags = append(o.Tags, "real:shape:MakeHandler-unbuffered-queue")
				}
			}
			hs = append(hs, h)
		}
		// registered last = consulted last: a message it has received went past every other handler
		sentinel.queue = make(chan *net.Message, 64)
		sentinel.id = e.MakeHandler(sentinel.filter, sentinel.queue, sentinel.closer)
	}
	var e net.EndPoint
	ctor := c.Ctor
	if ctor == "ConnEndPoint" && conn == nil {
		ctor = "NewEndPoint"
	}
	if s := call(func() {
		switch ctor {
		case "EndPointFinalizer":
			e = net.EndPointFinalizer(st, register)
		case "ConnEndPoint":
			e = net.ConnEndPoint(conn)
			register(e)
		default:
			e = net.NewEndPoint(st)
			register(e)
		}
	}); s != "" {
		fail("building the endpoint and registering the handlers: %s", s)
		return o
	}
	o.Tags = append(o.Tags, "real:ctor:"+ctor)
	all := append(append([]*rhandler{}, hs...), sentinel)
	seen := map[int]bool{}
	for i, h := range all {
		if h.sh.Kind == "ReceiveAny" {
			continue
		}
		if h.id < 0 || seen[h.id] {
			fail("%s got id %d, which is negative or names another registered handler", h.name(i), h.id)
		}
		seen[h.id] = true
	}

	// ---- traffic from the peer ----
	nextID := uint32(1)
	expectGot := map[*rhandler][]uint32{} // AddHandler consumers
	anyTaken := false
	sendFromPeer := func(typ uint8, action uint32) (uint32, bool) {
		id := nextID
		nextID++
		m := net.NewMessage(net.NewHeader(typ, 1, 1, action, id), []byte{1, 2, 3, 4})
		if s := call(func() {
			if err := m.Write(peer); err != nil {
				panic(fmt.Sprintf("peer write: %v", err))
			}
		}); s != "" {
			fail("the peer could not send message id %d (type %d, action %d): %s", id, typ, action, s)
			return id, false
		}
		return id, true
	}
	recvOne := func(h *rhandler, i int, id uint32) {
		select {
		case m, ok := <-h.queue:
			if !ok {
				fail("%s: queue closed while message id %d was expected", h.name(i), id)
			} else if m.Header.ID != id {
				fail("%s: received message id %d, expected id %d", h.name(i), m.Header.ID, id)
			}
		case <-time.After(opTimeout):
			noteHang()
			fail("%s: message id %d, selected by its filter while the queue had room, never arrived", h.name(i), id)
		}
	}
	event := func(action uint32) bool {
		id, ok := sendFromPeer(net.Event, action)
		if !ok {
			return false
		}
		// the sentinel first: when it has the message, dispatch has consulted every other handler
		recvOne(sentinel, len(hs), id)
		for i, h := range hs {
			if h.left {
				continue
			}
			switch {
			case h.sh.Kind == "ReceiveAny":
				if !anyTaken {
					recvOne(h, i, id)
				}
				h.left = true
				anyTaken = true
			case h.sh.Kind == "AddHandler":
				expectGot[h] = append(expectGot[h], id)
				want := len(expectGot[h])
				if !waitUntil(opTimeout, func() bool { return h.gotN() >= want }) {
					noteHang()
					fail("%s: the consumer was not called with message id %d (selected, queue of 10 not full, handler not closed)", h.name(i), id)
				}
			case h.sh.Cap > 0:
				recvOne(h, i, id)
			}
			if h.sh.OneShot && action == 9 {
				h.left = true
			}
		}
		return true
	}
	for k := 0; k < c.Traffic; k++ {
		if !event(1) {
			return o
		}
	}

	// closedOnce: the oracle for one handler that must be closed by now (or within the deadline)
	closedOnce := func(h *rhandler, i int, why string, wantNil int) {
		if !h.sh.NilCloser && h.sh.Kind != "ReceiveAny" {
			if !waitUntil(opTimeout, func() bool { return atomic.LoadInt32(&h.closerN) >= 1 }) {
				noteHang()
				fail("%s: %s, 0 close callback calls within the deadline (want 1)", h.name(i), why)
			}
		}
		if h.queue != nil {
			deadline := time.After(opTimeout)
		drain:
			for {
				select {
				case _, ok := <-h.queue:
					if !ok {
						break drain
					}
				case <-deadline:
					noteHang()
					fail("%s: %s, its queue is not closed within the deadline", h.name(i), why)
					break drain
				}
			}
		}
		_ = wantNil
	}
	// after everything settled: exactly once, argument, nothing selected afterwards, consumers complete
	final := func(wantNil int) {
		time.Sleep(15 * time.Millisecond)
		for i, h := range all {
			n := int(atomic.LoadInt32(&h.closerN))
			h.mu.Lock()
			if n > 1 {
				fail("%s: close callback called %d times", h.name(i), n)
			}
			if n >= 1 {
				isNil := h.closerE[0] == nil
				switch {
				case h.left && !isNil:
					fail("%s: closed by RemoveHandler / keep == false, close callback called with %v (want nil)", h.name(i), h.closerE[0])
				// Close(): nil or the read error — on a real connection the endpoint's own reader, woken by
				// stream.Close(), races with Close for the table and may walk it first
				case !h.left && wantNil == 0 && isNil:
					fail("%s: closed because the peer closed, close callback called with nil (want the read error)", h.name(i))
				}
			}
			if h.lateSel > 0 {
				fail("%s: its filter was consulted %d times after the close callback", h.name(i), h.lateSel)
			}
			h.mu.Unlock()
			if want := expectGot[h]; len(want) > 0 {
				h.mu.Lock()
				got := append([]uint32{}, h.got...)
				h.mu.Unlock()
				if len(got) < len(want) || !equalU32(got[:len(want)], want) {
					fail("%s: consumer received ids %v, the ids selected for it before the end were %v", h.name(i), got, want)
				}
			}
		}
	}

	// ---- a writer blocked because the peer does not read ----
	type sendRes struct{ err error }
	var sends []chan sendRes
	probeDone := make(chan string, 1)
	probePending := false
	switch c.Block {
	case "send", "two-sends":
		n := 1
		if c.Block == "two-sends" {
			n = 2
		}
		for k := 0; k < n; k++ {
			ch := make(chan sendRes, 1)
			sends = append(sends, ch)
			size := realBigPayload
			if c.Transport == "net.Pipe" {
				size = 3
			}
			go func(k int) {
				m := net.NewMessage(net.NewHeader(net.Post, 1, 1, 1, uint32(1000+k)), make([]byte, size))
				ch <- sendRes{e.Send(m)}
			}(k)
		}
		time.Sleep(60 * time.Millisecond)
		for k, ch := range sends {
			select {
			case r := <-ch:
				fail("e.Send #%d of a message the peer never reads returned %v instead of blocking (harness expectation)", k, r.err)
				return o
			default:
			}
		}
	case "call-reply":
		// the peer sends Calls from a goroutine and never reads; the unbuffered queue without receiver is always full
		stop := make(chan struct{})
		defer close(stop)
		go func() {
			var buf []byte
			for k := 0; k < 256; k++ {
				m := net.NewMessage(net.NewHeader(net.Call, 1, 1, 2, uint32(2000+k)), nil)
				var w writerBuf
				m.Write(&w)
				buf = append(buf, w.b...)
			}
			for r := 0; r < 4096; r++ {
				select {
				case <-stop:
					return
				default:
				}
				if _, err := peer.Write(buf); err != nil {
					return
				}
			}
		}()
		// blocked = an operation that needs the table mutex does not come back
		blocked := false
		for start := time.Now(); time.Since(start) < 8*time.Second; {
			done := make(chan string, 1)
			go func() {
				defer func() {
					if r := recover(); r != nil {
						done <- fmt.Sprintf("panic: %v", r)
					}
				}()
				if err := e.RemoveHandler(-1); err == nil {
					done <- "RemoveHandler(-1) = nil"
				} else {
					done <- ""
				}
			}()
			select {
			case s := <-done:
				if s != "" {
					fail("%s while the peer sends Calls", s)
					return o
				}
				time.Sleep(2 * time.Millisecond)
				continue
			case <-time.After(60 * time.Millisecond):
				blocked, probePending, probeDone = true, true, done
			}
			break
		}
		if !blocked {
			fail("harness expectation: dispatch never blocked in the Write of its Error replies although the peer does not read")
			return o
		}
	}

	// ---- the end ----
	closeOnce := func(what string) bool {
		var cerr error
		s := call(func() { cerr = e.Close() })
		if s == "hang" {
			noteHang()
			extra := ""
			if c.Block != "" {
				extra = " while a writer was blocked in the stream's Write (" + c.Block + ")"
			}
			fail("%s never returned%s: no handler is closed (deadlock)", what, extra)
			return false
		}
		if s != "" {
			fail("%s: %s", what, s)
			return false
		}
		_ = cerr
		return true
	}
	wantNil := -1
	switch c.End {
	case "Close":
		if !closeOnce("Close()") {
			return o
		}
		wantNil = 1
	case "Close-twice":
		if !closeOnce("Close()") || !closeOnce("the second Close()") {
			return o
		}
		wantNil = 1
	case "peer-close":
		peer.Close()
		wantNil = 0
	case "Close-and-peer-close":
		go peer.Close()
		if !closeOnce("Close() racing with the peer closing") {
			return o
		}
	case "remove-all-then-Close":
		for i, h := range all {
			if h.sh.Kind == "ReceiveAny" {
				continue
			}
			var rerr error
			s := call(func() { rerr = e.RemoveHandler(h.id) })
			if s == "hang" {
				noteHang()
			}
			if s != "" {
				fail("RemoveHandler(%d) of %s: %s", h.id, h.name(i), s)
				return o
			}
			if h.left {
				if rerr == nil {
					fail("RemoveHandler(%d) = nil although %s had left through keep == false", h.id, h.name(i))
				}
				continue
			}
			if rerr != nil {
				fail("RemoveHandler(%d) of the registered %s = %v", h.id, h.name(i), rerr)
			}
			if n := atomic.LoadInt32(&h.closerN); !h.sh.NilCloser && n != 1 {
				fail("%s: %d close callback calls when RemoveHandler(%d) returned (want 1)", h.name(i), n, h.id)
			}
			h.left = true
			closedOnce(h, i, fmt.Sprintf("RemoveHandler(%d) returned nil", h.id), 1)
			s = call(func() { rerr = e.RemoveHandler(h.id) })
			if s != "" {
				fail("second RemoveHandler(%d): %s", h.id, s)
				return o
			}
			if rerr == nil {
				fail("second RemoveHandler(%d) = nil", h.id)
			}
		}
		if !closeOnce("Close()") {
			return o
		}
		wantNil = 1
	case "one-shot-message-then-Close":
		var ones []int
		for i, h := range hs {
			if h.sh.OneShot && !h.left {
				ones = append(ones, i)
			}
		}
		if !event(9) {
			return o
		}
		for _, i := range ones {
			closedOnce(hs[i], i, "its filter answered keep == false and dispatch went on to the next handler", 1)
		}
		if !closeOnce("Close()") {
			return o
		}
		wantNil = 1
	}
	for i, h := range all {
		closedOnce(h, i, "registered before the shutdown ("+c.End+")", wantNil)
	}
	for k, ch := range sends {
		select {
		case r := <-ch:
			if r.err == nil {
				fail("e.Send #%d, blocked when the endpoint was shut down, returned nil (16 MB never read by the peer)", k)
			}
		case <-time.After(opTimeout):
			noteHang()
			fail("e.Send #%d, blocked in Write when the endpoint was shut down (%s), never returned", k, c.End)
		}
	}
	if probePending {
		select {
		case s := <-probeDone:
			if s != "" {
				fail("RemoveHandler(-1) issued while dispatch was blocked: %s", s)
			}
		case <-time.After(opTimeout):
			noteHang()
			fail("RemoveHandler(-1), waiting for the table while dispatch was blocked in Write, never returned after the shutdown (%s): the table stays locked", c.End)
		}
	}
	final(wantNil)
	return o
}

// ---------- child / parent ----------

func childReal17(res *hx.Result, tier string, outdir string) {
	log.SetOutput(io.Discard)
	f, err := os.OpenFile(filepath.Join(outdir, "C17_real.jsonl"), os.O_APPEND|os.O_CREATE|os.O_WRONLY, 0o644)
	if err != nil {
		panic(err)
	}
	defer f.Close()
	from, _ := strconv.Atoi(os.Getenv("QV_C17_REAL_FROM"))
	cs := realCases(tier)
	for k := from; k < len(cs); k++ {
		b, _ := json.Marshal(map[string]interface{}{"begin": k, "desc": cs[k].String()})
		f.Write(append(b, '\n'))
		o := runReal(k, cs[k])
		b, _ = json.Marshal(o)
		f.Write(append(b, '\n'))
	}
}

func runReal17(res *hx.Result, tier string, outdir string) {
	path := filepath.Join(outdir, "C17_real.jsonl")
	os.Remove(path)
	cs := realCases(tier)
	next, crashes, doneN := 0, 0, 0
	seen := map[int]bool{}
	for next < len(cs) && crashes < 12 {
		cmd := exec.Command(os.Args[0], "--seed", fmt.Sprint(res.Seed), "--tier", tier, "--out", outdir, "C17.child")
		cmd.Env = append(os.Environ(), "QV_C17_REAL=1", fmt.Sprintf("QV_C17_REAL_FROM=%d", next))
		var stderr strings.Builder
		cmd.Stderr = &stderr
		cmd.Stdout = &stderr
		if err := cmd.Start(); err != nil {
			res.Notes = append(res.Notes, "cannot start real-stream child: "+err.Error())
			return
		}
		waitc := make(chan error, 1)
		go func() { waitc <- cmd.Wait() }()
		var werr error
		select {
		case werr = <-waitc:
		case <-time.After(10 * time.Minute):
			cmd.Process.Kill()
			werr = fmt.Errorf("real-stream child exceeded 10 min")
			<-waitc
		}
		begun, begunDesc := -1, ""
		if fh, err := os.Open(path); err == nil {
			sc := bufio.NewScanner(fh)
			sc.Buffer(make([]byte, 1<<20), 1<<26)
			for sc.Scan() {
				var rec struct {
					Begin *int     `json:"begin"`
					Real  *int     `json:"real"`
					Desc  string   `json:"desc"`
					Fails []string `json:"fails"`
					Tags  []string `json:"tags"`
				}
				if json.Unmarshal(sc.Bytes(), &rec) != nil {
					continue
				}
				if rec.Begin != nil {
					begun, begunDesc = *rec.Begin, rec.Desc
				}
				if rec.Real != nil && !seen[*rec.Real] {
					seen[*rec.Real] = true
					doneN++
					for _, f := range rec.Fails {
						res.Fail("handler-lifecycle", fmt.Sprintf("[%s]: %s", rec.Desc, f))
					}
					res.Count(rec.Desc, true)
					for _, t := range rec.Tags {
						res.Dist(t)
					}
				}
			}
			fh.Close()
		}
		if werr == nil {
			break
		}
		crashes++
		tail := stderr.String()
		if i := strings.Index(tail, "panic:"); i >= 0 {
			tail = tail[i:]
		} else if i := strings.Index(tail, "fatal error:"); i >= 0 {
			tail = tail[i:]
		}
		if len(tail) > 700 {
			tail = tail[:700]
		}
		if begun >= 0 && !seen[begun] {
			res.Fail("process-died", fmt.Sprintf("[%s] killed the process (%v): %s", begunDesc, werr, tail))
		} else {
			res.Notes = append(res.Notes, fmt.Sprintf("real-stream child ended with %v outside a scenario: %s", werr, tail))
			if begun < 0 {
				return
			}
		}
		next = begun + 1
	}
	res.Notes = append(res.Notes, fmt.Sprintf("real stream wrappers and handler flavours: %d of %d scenarios ran to their end (ConnStream over net.Pipe/TCP/unix, PipeStream; MakeHandler/AddHandler/ReceiveAny with nil and recording closers; writers blocked in Write; implementation-side oracles only)", doneN, len(cs)))
	res.Distribution["real:scenarios"] = doneN
}
