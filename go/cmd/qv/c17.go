package main

// C17 — each connection handler is closed exactly once, whatever races with it.
//
// The parent (qv C17) starts child processes (qv C17.child) that drive real endPoints
// (bus/net) over a harness-owned Stream with scripted filters, closers and queues; a
// child appends one JSON line per finished case.  A crash of the child (a panic in one
// of the endpoint's own goroutines cannot be recovered) is attributed to the case that
// was running and reported with its operation sequence.  The parent turns the
// observations into Gallina cases that coq/run/C17Run.v replays on Endpoint.v.

import (
	"bufio"
	"context"
	"encoding/json"
	"errors"
	"fmt"
	"io"
	"os"
	"os/exec"
	"path/filepath"
	"runtime"
	"sort"
	"strconv"
	"strings"
	"sync"
	"sync/atomic"
	"time"

	"github.com/lugu/qiloop/bus/net"
	"qv/internal/hx"
)

func init() {
	props["C17"] = runC17
	props["C17.child"] = childC17
}

// ---------- harness-owned stream ----------

type hstream struct {
	mu       sync.Mutex
	cond     *sync.Cond
	buf      []byte
	err      error    // returned by Read once buf is empty
	idle     bool     // a Read is blocked on an empty buffer: the endpoint is waiting for the next frame
	writes   [][]byte // bytes handed to Write, frame by frame (also when the call failed)
	wire     []byte   // bytes the stream accepted (what a peer would have received)
	wmode    int      // write fault in force (wm* constants)
	wfaults  int      // Write calls that returned an error or made no progress
	blockedW int      // Write calls blocked right now (wmBlock)
	wcond    *sync.Cond
	cerr     error // returned by Close
	closes   int
	yield    bool // Write yields to other goroutines before recording (C10)
	// realClose: Close() ends the read side as the close of a real connection does (a blocked Read returns an
	// error).  Used when the endpoint runs its own reader (NewEndPoint, EndPointFinalizer).
	realClose bool
	ended     bool // a Read has returned the stream's error: the reader is on its way out
	onWrite   func()
}

func newHStream() *hstream {
	s := &hstream{}
	s.cond = sync.NewCond(&s.mu)
	s.wcond = sync.NewCond(&s.mu)
	return s
}

func (s *hstream) Read(p []byte) (int, error) {
	s.mu.Lock()
	defer s.mu.Unlock()
	for len(s.buf) == 0 && s.err == nil {
		s.idle = true
		s.cond.Broadcast()
		s.cond.Wait()
	}
	s.idle = false
	if len(s.buf) == 0 {
		s.ended = true
		s.cond.Broadcast()
		return 0, s.err
	}
	n := copy(p, s.buf)
	s.buf = s.buf[n:]
	return n, nil
}

// write faults of the harness-owned stream (what a Write call answers)
const (
	wmOK         = iota // (len(p), nil)
	wmClosedPipe        // (0, io.ErrClosedPipe): the peer is gone
	wmPartial           // (7, error): the connection broke in the middle of the frame
	wmEOF               // (0, io.EOF)
	wmNoProgress        // (0, nil)
	wmChunked           // (min(5, len(p)), nil): healthy, but the frame leaves in pieces
	wmFullEOF           // (len(p), io.EOF): everything written, then the peer closed
	wmBlock             // the peer does not read: Write blocks until the stream is closed, then (and afterwards) (0, io.ErrClosedPipe)
	wmCount
)

var wmNames = []string{"ok", "closed-pipe", "partial", "eof", "no-progress", "chunked", "full-then-eof", "blocks-until-close"}

const wmPartialLen = 7
const wmChunkLen = 5

func (s *hstream) Write(p []byte) (int, error) {
	s.mu.Lock()
	defer s.mu.Unlock()
	if s.wmode == wmBlock && s.closes == 0 {
		s.blockedW++
		s.cond.Broadcast()
		for s.wmode == wmBlock && s.closes == 0 {
			s.wcond.Wait()
		}
		s.blockedW--
	}
	n, err := len(p), error(nil)
	switch s.wmode {
	case wmClosedPipe, wmBlock:
		n, err = 0, io.ErrClosedPipe
	case wmPartial:
		if n > wmPartialLen {
			n = wmPartialLen
		}
		err = errors.New("harness: connection reset by peer")
	case wmEOF:
		n, err = 0, io.EOF
	case wmNoProgress:
		n = 0
	case wmChunked:
		if n > wmChunkLen {
			n = wmChunkLen
		}
	case wmFullEOF:
		err = io.EOF
	}
	s.wire = append(s.wire, p[:n]...)
	if err != nil && s.wmode != wmFullEOF || n == 0 {
		// the call that ends the frame: record everything the endpoint wanted to send
		s.writes = append(s.writes, append([]byte(nil), p...))
		s.wfaults++
	} else {
		s.writes = append(s.writes, append([]byte(nil), p[:n]...))
	}
	return n, err
}

func (s *hstream) setWriteMode(m int) {
	s.mu.Lock()
	s.wmode = m
	s.wcond.Broadcast()
	s.mu.Unlock()
}
func (s *hstream) setCloseErr(err error) {
	s.mu.Lock()
	s.cerr = err
	s.mu.Unlock()
}

func (s *hstream) Close() error {
	s.mu.Lock()
	defer s.mu.Unlock()
	s.closes++
	s.wcond.Broadcast()
	if s.realClose && s.err == nil {
		s.err = io.ErrClosedPipe
		s.cond.Broadcast()
	}
	return s.cerr
}
func (s *hstream) String() string           { return "harness://stream" }
func (s *hstream) Context() context.Context { return context.TODO() }

func (s *hstream) feed(b []byte) {
	s.mu.Lock()
	s.buf = append(s.buf, b...)
	s.idle = false
	s.cond.Broadcast()
	s.mu.Unlock()
}
func (s *hstream) fail(err error) {
	s.mu.Lock()
	s.err = err
	s.cond.Broadcast()
	s.mu.Unlock()
}

// waitIdle: the endpoint consumed everything and is blocked in Read again.
func (s *hstream) waitIdle(d time.Duration) bool {
	timedOut := false
	t := time.AfterFunc(d, func() { s.mu.Lock(); timedOut = true; s.cond.Broadcast(); s.mu.Unlock() })
	defer t.Stop()
	s.mu.Lock()
	defer s.mu.Unlock()
	for !((s.idle || s.ended) && len(s.buf) == 0) {
		if timedOut {
			return false
		}
		s.cond.Wait()
	}
	return true
}

// waitQuiet: like waitIdle, but also returns when a Write of the endpoint is blocked (blocked == true).
// stop (may be nil) ends the wait when it is closed or receives.
func (s *hstream) waitQuiet(d time.Duration, needIdle bool, stop <-chan struct{}) (blocked bool, ok bool) {
	timedOut, stopped := false, false
	t := time.AfterFunc(d, func() { s.mu.Lock(); timedOut = true; s.cond.Broadcast(); s.mu.Unlock() })
	defer t.Stop()
	quit := make(chan struct{})
	defer close(quit)
	if stop != nil {
		go func() {
			select {
			case <-stop:
				s.mu.Lock()
				stopped = true
				s.cond.Broadcast()
				s.mu.Unlock()
			case <-quit:
			}
		}()
	}
	s.mu.Lock()
	defer s.mu.Unlock()
	for {
		if s.blockedW > 0 {
			return true, true
		}
		if needIdle && (s.idle || s.ended) && len(s.buf) == 0 {
			return false, true
		}
		if stopped {
			return false, true
		}
		if timedOut {
			return false, false
		}
		s.cond.Wait()
	}
}
func (s *hstream) snapshot() (w [][]byte, wire []byte, closes int) {
	s.mu.Lock()
	defer s.mu.Unlock()
	return append([][]byte(nil), s.writes...), append([]byte(nil), s.wire...), s.closes
}
func (s *hstream) writesSnapshot() [][]byte {
	s.mu.Lock()
	defer s.mu.Unlock()
	return s.writes
}
func (s *hstream) closeCount() int {
	s.mu.Lock()
	defer s.mu.Unlock()
	return s.closes
}
func (s *hstream) faults() int {
	s.mu.Lock()
	defer s.mu.Unlock()
	return s.wfaults
}

// ---------- scripts ----------

type bb struct{ M, K bool } // (matched, keep)

type fdesc struct {
	Kind int  // 0 table by Action, 1 "after k consultations"
	Tab  []bb // kind 0
	K    int  // kind 1
	A, B bb   // kind 1
}

func (f fdesc) term() string {
	p := func(x bb) string { return "(" + hx.Bool(x.M) + ", " + hx.Bool(x.K) + ")" }
	if f.Kind == 0 {
		it := make([]string, len(f.Tab))
		for i, x := range f.Tab {
			it[i] = p(x)
		}
		return "FTab " + hx.List(it)
	}
	return fmt.Sprintf("FAfter %d%%N %s %s", f.K, p(f.A), p(f.B))
}
func (f fdesc) String() string {
	s := func(x bb) string {
		r := ""
		if x.M {
			r += "m"
		} else {
			r += "-"
		}
		if x.K {
			r += "k"
		} else {
			r += "x"
		}
		return r
	}
	if f.Kind == 0 {
		var it []string
		for _, x := range f.Tab {
			it = append(it, s(x))
		}
		return "tab[" + strings.Join(it, ",") + "]"
	}
	return fmt.Sprintf("after%d[%s>%s]", f.K, s(f.A), s(f.B))
}

type mspec struct {
	Typ, Service, Object, Action, ID uint32
	Payload                          []byte
}

func (m mspec) term() string {
	return fmt.Sprintf("(%d%%N, %d%%N, %d%%N, %d%%N, %d%%N, %s)", m.Typ, m.Service, m.Object, m.Action, m.ID, hx.Hex(m.Payload))
}
func (m mspec) message() net.Message {
	h := net.NewHeader(uint8(m.Typ), m.Service, m.Object, m.Action, m.ID)
	return net.NewMessage(h, append([]byte{}, m.Payload...))
}

const (
	opMake = iota
	opRemove
	opMsg
	opClose
	opPeerClose
	opRelease
	opRecv
	opReleaseLowest // release the held handler with the lowest creation index
	opFault         // the stream changes behaviour: Mode = write fault (wm*), CloseErr = Close() answers an error
)

// how the read side ends (opPeerClose.Var)
const (
	pcEOF       = iota // Read answers io.EOF
	pcReset            // Read answers another error
	pcTruncated        // half a header, then io.EOF
	pcBadMagic         // a complete header with a wrong magic number (the stream stays readable)
	pcCount
	// not generated: the endpoint's own reader starts on a stream that Close() closed inside the set-up callback
	pcClosedInSetup = 100
)

var pcNames = []string{"eof", "reset", "truncated-frame", "bad-magic"}

func pcName(v int) string {
	if v == pcClosedInSetup {
		return "stream-closed-in-setup"
	}
	return pcNames[v%pcCount]
}

type sop struct {
	Kind  int
	F     fdesc
	Fre   bool
	Cl    int // 0 nil, 1 closer, 2 re-entering closer
	Cap   int
	ID    int   // remove: id
	M     mspec // msg
	Holds []int // close/peerclose: handlers (creation index) whose closer is held
	H     int   // release/recv: creation index
	Var   int   // peerclose: pc* constant
	Mode  int   // fault: wm* constant
	CErr  bool  // fault: stream.Close() returns an error from now on
}

func (o sop) String() string {
	switch o.Kind {
	case opMake:
		s := fmt.Sprintf("Make(%s cap=%d cl=%d", o.F, o.Cap, o.Cl)
		if o.Fre {
			s += " filter-reenters"
		}
		return s + ")"
	case opRemove:
		return fmt.Sprintf("Remove(%d)", o.ID)
	case opMsg:
		return fmt.Sprintf("Msg(type=%d action=%d id=%d len=%d)", o.M.Typ, o.M.Action, o.M.ID, len(o.M.Payload))
	case opClose:
		return fmt.Sprintf("Close(hold=%v)", o.Holds)
	case opPeerClose:
		if o.Var != pcEOF {
			return fmt.Sprintf("PeerClose(%s hold=%v)", pcName(o.Var), o.Holds)
		}
		return fmt.Sprintf("PeerClose(hold=%v)", o.Holds)
	case opFault:
		s := "StreamFault(write=" + wmNames[o.Mode%wmCount]
		if o.CErr {
			s += " close=error"
		}
		return s + ")"
	case opRelease:
		return fmt.Sprintf("Release(h%d)", o.H)
	case opRecv:
		return fmt.Sprintf("Recv(h%d)", o.H)
	case opReleaseLowest:
		return "ReleaseLowest"
	}
	return "?"
}

// how the endpoint of a script is built
const (
	ctorHook        = iota // net.VerifEndPoint: the harness owns the process goroutine (its end is observable)
	ctorFinalizer          // net.EndPointFinalizer: the first Setup operations run inside the set-up callback, before the endpoint reads
	ctorNewEndPoint        // net.NewEndPoint
)

type c17script struct {
	Name   string
	Stream bool // messages go through the stream and the endpoint's own process loop
	Ops    []sop
	Ctor   int // ctor* constant; anything but ctorHook implies Stream
	Setup  int // ctorFinalizer: number of leading operations run inside the callback
}

func (s c17script) String() string {
	var it []string
	// runs of eight or more identical operations (the fill of a large table) are written once
	for i := 0; i < len(s.Ops); {
		t := s.Ops[i].String()
		j := i + 1
		for j < len(s.Ops) && s.Ops[j].String() == t {
			j++
		}
		if j-i >= 8 {
			it = append(it, fmt.Sprintf("%d x %s", j-i, t))
		} else {
			for k := i; k < j; k++ {
				it = append(it, t)
			}
		}
		i = j
	}
	mode := "direct"
	if s.Stream {
		mode = "stream"
	}
	switch s.Ctor {
	case ctorFinalizer:
		mode = fmt.Sprintf("stream, built by EndPointFinalizer with the first %d operations inside its set-up callback", s.Setup)
	case ctorNewEndPoint:
		mode = "stream, built by NewEndPoint"
	}
	return s.Name + "/" + mode + ": " + strings.Join(it, "; ")
}

// ---------- one harness-side handler ----------

type hh struct {
	mu          sync.Mutex
	idx         int // creation index
	slot        int
	f           fdesc
	fre         bool
	cl          int
	capq        int
	q           chan *net.Message
	stash       []uint32 // ids taken out of q, oldest first
	taken       int      // messages taken out of q
	expect      []uint32 // ids the filter selected while the queue had room (mirror)
	enq         int      // len(expect)
	consults    int
	closerCalls int32
	closerArg   int // 1 nil, 2 error
	closedSeen  bool
	held        bool
	entered     chan struct{}
	gate        chan struct{}
	bad         []string // oracle failures local to this handler
	madeBefore  bool     // a shutdown happened after this handler was registered
	e           net.EndPoint
}

// pull moves what is in the queue into the stash without blocking; reports whether the queue is closed.
func (h *hh) pull() bool {
	for {
		select {
		case m, ok := <-h.q:
			if !ok {
				h.closedSeen = true
				return true
			}
			if h.closedSeen {
				h.bad = append(h.bad, "a message was received after the queue was seen closed")
			}
			h.stash = append(h.stash, m.Header.ID)
			h.taken++
		default:
			return h.closedSeen
		}
	}
}

func (h *hh) filter(hdr *net.Header) (bool, bool) {
	h.mu.Lock()
	n := h.consults
	h.consults++
	var r bb
	if h.f.Kind == 0 {
		r = bb{false, true}
		if int(hdr.Action) < len(h.f.Tab) {
			r = h.f.Tab[hdr.Action]
		}
	} else if n < h.f.K {
		r = h.f.A
	} else {
		r = h.f.B
	}
	if r.M {
		// mirror of "the queue has room": the harness is the only consumer
		if h.enq-h.taken < h.capq {
			h.expect = append(h.expect, hdr.ID)
			h.enq++
		}
	}
	if r.M && atomic.LoadInt32(&h.closerCalls) > 0 {
		h.bad = append(h.bad, fmt.Sprintf("message id %d selected for the handler after its close callback was invoked", hdr.ID))
	}
	h.mu.Unlock()
	if h.fre {
		h.e.RemoveHandler(-1)
	}
	return r.M, r.K
}

func (h *hh) closer(err error) {
	h.mu.Lock()
	n := atomic.AddInt32(&h.closerCalls, 1)
	if n > 1 {
		h.bad = append(h.bad, fmt.Sprintf("close callback invoked %d times", n))
	}
	if err == nil {
		h.closerArg = 1
	} else {
		h.closerArg = 2
	}
	if h.pull() {
		h.bad = append(h.bad, "queue closed before the close callback was invoked")
	}
	held := h.held
	h.mu.Unlock()
	if h.cl == 2 {
		h.e.RemoveHandler(-1)
	}
	if held {
		close(h.entered)
		select {
		case <-h.gate:
		case <-time.After(20 * time.Second):
		}
	}
}

// ---------- running one c17script ----------

type caseObs struct {
	Index      int      `json:"index"`
	Desc       string   `json:"desc"`
	Ops        []string `json:"ops"` // Gallina oop terms
	End        int      `json:"end"`
	Hs         []string `json:"hs"` // Gallina hobs terms
	Sent       []string `json:"sent"`
	Wire       string   `json:"wire"` // bytes the stream accepted
	SClose     int      `json:"sclose"`
	Fails      []string `json:"fails"`
	Contract   bool     `json:"contract"` // no re-entering callback in the c17script
	Nontrivial bool     `json:"nontrivial"`
	NoModel    bool     `json:"nomodel"` // oracle-only case (deep exhaustive enumeration): not written for the model
	Dist       []string `json:"dist"`
}

// deadline of one operation.  A child that has already reported several operations that never
// returned (only a broken tree gets there) waits less for the following ones.
var opTimeout = 3 * time.Second

const hangsBeforeShortDeadline = 6

var hangsSeen int

func noteHang() {
	hangsSeen++
	if hangsSeen == hangsBeforeShortDeadline {
		opTimeout = 750 * time.Millisecond
	}
}

// a dispatch that has not returned: it waits in the stream's Write (wmBlock)
type pendingMsg struct {
	o                sop
	before           map[*hh]int
	done             chan struct{} // direct mode: closed when dispatch returned
	res              string        // direct mode: "" or "panic: ..."
	d                int           // direct mode: class of the value dispatch returned
	wBefore, fBefore int
}

type runner17 struct {
	pending  *pendingMsg
	e        net.EndPoint
	dispatch func(*net.Message) error
	process  func()
	procDone chan struct{}
	st       *hstream
	hs       []*hh
	live     map[int]*hh // mirror of the table: id -> handler
	obs      *caseObs
	stream   bool
	wmode    int  // write fault in force
	cerr     bool // stream.Close() answers an error
	// EndPointFinalizer: stream.Close() calls made inside the set-up callback
	setupCloses int
}

// call runs f with a deadline and recovers a panic raised on its goroutine.
// returns "", "panic: ..." or "hang".
func call(f func()) string { return callWithin(opTimeout, f) }

func callWithin(d time.Duration, f func()) string {
	done := make(chan string, 1)
	go func() {
		defer func() {
			if r := recover(); r != nil {
				done <- fmt.Sprintf("panic: %v", r)
			}
		}()
		f()
		done <- ""
	}()
	select {
	case s := <-done:
		return s
	case <-time.After(d):
		return "hang"
	}
}

func waitUntil(d time.Duration, cond func() bool) bool {
	deadline := time.Now().Add(d)
	for i := 0; ; i++ {
		if cond() {
			return true
		}
		if time.Now().After(deadline) {
			return false
		}
		if i < 200 {
			time.Sleep(20 * time.Microsecond)
		} else {
			time.Sleep(time.Millisecond)
		}
	}
}

// call: operations of a c17script that breaks the callback contract are expected to hang; do not wait long
func (r *runner17) call(f func()) string {
	if !r.obs.Contract {
		return callWithin(400*time.Millisecond, f)
	}
	return call(f)
}

func (r *runner17) fail(format string, a ...interface{}) {
	r.obs.Fails = append(r.obs.Fails, fmt.Sprintf(format, a...))
}

func dclass(err error) int {
	switch err {
	case nil:
		return 0
	case net.ErrNoMatch:
		return 1
	case net.ErrConsumerBlocked:
		return 2
	case net.ErrNoHandler:
		return 3
	}
	return 8
}

func runScript(idx int, sc c17script) *caseObs {
	obs := &caseObs{Index: idx, Desc: sc.String(), Contract: true}
	if sc.Ctor != ctorHook {
		sc.Stream = true
	}
	r := &runner17{st: newHStream(), live: map[int]*hh{}, obs: obs, stream: sc.Stream}
	inSetup := false // the operations run inside the set-up callback of EndPointFinalizer
	maxLive, shutdownWithTwo := 0, false
	// the observed operations, with runs written once: k registrations with the same arguments that returned
	// consecutive ids are one OMakes, the two steps of the close goroutines of consecutive handlers one OGoRange
	// (C17Run.expand undoes both)
	var runMake struct {
		args    string
		from, k int
	}
	var runGo struct{ from, k int }
	flushRuns := func() {
		if runMake.k == 1 {
			obs.Ops = append(obs.Ops, fmt.Sprintf("OMake %s %d%%N", runMake.args, runMake.from))
		} else if runMake.k > 1 {
			obs.Ops = append(obs.Ops, fmt.Sprintf("OMakes %s %d%%N %d%%N", runMake.args, runMake.from, runMake.k))
		}
		runMake.k = 0
		if runGo.k == 1 {
			obs.Ops = append(obs.Ops, fmt.Sprintf("OGoCloser %d%%N", runGo.from), fmt.Sprintf("OGoClose %d%%N", runGo.from))
		} else if runGo.k > 1 {
			obs.Ops = append(obs.Ops, fmt.Sprintf("OGoRange %d%%N %d%%N", runGo.from, runGo.k))
		}
		runGo.k = 0
	}
	emit := func(s string) { flushRuns(); obs.Ops = append(obs.Ops, s) }
	emitMake := func(args string, got int) {
		if runMake.k > 0 && runMake.args == args && got == runMake.from+runMake.k {
			runMake.k++
			return
		}
		flushRuns()
		runMake.args, runMake.from, runMake.k = args, got, 1
	}
	emitGoBoth := func(hid int) {
		if runGo.k > 0 && hid == runGo.from+runGo.k {
			runGo.k++
			return
		}
		flushRuns()
		runGo.from, runGo.k = hid, 1
	}
	ended := func(res string, what string) bool {
		if res == "" {
			return false
		}
		if inSetup {
			what += " called from inside the set-up callback of EndPointFinalizer (before the endpoint reads the stream)"
		}
		if res == "hang" {
			obs.End = 2
			if obs.Contract {
				noteHang()
				r.fail("%s never returned (deadlock)", what)
			}
		} else {
			obs.End = 1
			r.fail("%s: %s", what, res)
		}
		return true
	}
	// closeHandlers: after a shutdown, wait for the goroutines of the handlers that were live
	afterShutdown := func(o sop, was []*hh) bool {
		for _, h := range was {
			if h.cl != 0 {
				if h.held {
					select {
					case <-h.entered:
					case <-time.After(opTimeout):
						obs.End = 2
						noteHang()
						r.fail("the close callback of handler h%d was not invoked within %v of the shutdown", h.idx, opTimeout)
						return false
					}
					emit(fmt.Sprintf("OGoCloser %d%%N", h.idx))
					continue
				}
			}
			ok := waitUntil(opTimeout, func() bool { h.mu.Lock(); defer h.mu.Unlock(); return h.pull() })
			if !ok {
				obs.End = 2
				noteHang()
				r.fail("the queue of handler h%d was not closed within %v of the shutdown", h.idx, opTimeout)
				return false
			}
			emitGoBoth(h.idx)
		}
		return true
	}
	liveInSlotOrder := func() []*hh {
		var ids []int
		for id := range r.live {
			ids = append(ids, id)
		}
		for i := range ids {
			for j := i + 1; j < len(ids); j++ {
				if ids[j] < ids[i] {
					ids[i], ids[j] = ids[j], ids[i]
				}
			}
		}
		out := make([]*hh, len(ids))
		for i, id := range ids {
			out[i] = r.live[id]
		}
		return out
	}
	procExited := false
	paths := map[string]bool{}
	tableLen := 10 // mirror of len(e.handlers)
	// probe: whatever path the previous operation took through the endpoint, the next operation that
	// needs the handler table must complete.  RemoveHandler(-1) is such an operation and changes nothing.
	probe := func(after string) bool {
		if !obs.Contract || obs.End != 0 {
			return true
		}
		var err error
		res := call(func() { err = r.e.RemoveHandler(-1) })
		if res == "hang" {
			obs.End = 2
			noteHang()
			r.fail("after %s returned, RemoveHandler(-1) never returned: the handler table stays locked (deadlock); stream write fault in force: %s", after, wmNames[r.wmode])
			return false
		}
		if res != "" {
			obs.End = 1
			r.fail("after %s returned, RemoveHandler(-1): %s", after, res)
			return false
		}
		if err == nil {
			r.fail("after %s returned, RemoveHandler(-1) returned nil", after)
		}
		return true
	}
	// finishMsg: the dispatch of pm.o has returned (res == "") — record it and check what it did to the handlers
	finishMsg := func(pm *pendingMsg, res string) bool {
		o := pm.o
		d := 9
		if res == "" {
			d = pm.d
		}
		emit(fmt.Sprintf("OMsg %s %d%%N", o.M.term(), d))
		if ended(res, o.String()) {
			return false
		}
		if !sc.Stream {
			paths["dispatch:returns-"+[]string{"nil", "no-match", "consumer-blocked", "no-handler", "", "", "", "", "other-error"}[d]] = true
		}
		if len(r.st.writesSnapshot()) > pm.wBefore {
			if r.st.faults() > pm.fBefore {
				paths["dispatch:blocked-call-reply-write-fails:"+wmNames[r.wmode]] = true
			} else {
				paths["dispatch:blocked-call-reply-written:"+wmNames[r.wmode]] = true
			}
		}
		for id, h := range r.live {
			h.mu.Lock()
			n := h.consults - pm.before[h]
			if n != 1 {
				h.bad = append(h.bad, fmt.Sprintf("filter consulted %d times for message id %d while registered", n, o.M.ID))
			}
			// what did the filter answer for this message?
			var ans bb
			k := h.consults - 1
			if h.f.Kind == 0 {
				ans = bb{false, true}
				if int(o.M.Action) < len(h.f.Tab) {
					ans = h.f.Tab[o.M.Action]
				}
			} else if k < h.f.K {
				ans = h.f.A
			} else {
				ans = h.f.B
			}
			if n >= 1 && !ans.K {
				// self-removal: closed under the table's lock, before dispatch returned
				closed := h.pull()
				cc := int(atomic.LoadInt32(&h.closerCalls))
				want := 0
				if h.cl != 0 {
					want = 1
				}
				if cc != want || !closed {
					h.bad = append(h.bad, fmt.Sprintf("after its filter answered keep=false for message id %d: %d close callback calls (want %d), queue closed = %v", o.M.ID, cc, want, closed))
				}
				delete(r.live, id)
				paths["dispatch:keep-false-closes"] = true
			}
			h.mu.Unlock()
		}
		return true
	}
	// awaitPending: the blocked Write has been released; wait for that dispatch to return
	awaitPending := func(pm *pendingMsg) string {
		if sc.Stream {
			if !r.st.waitIdle(opTimeout) {
				return "hang"
			}
			return ""
		}
		select {
		case <-pm.done:
			return pm.res
		case <-time.After(opTimeout):
			return "hang"
		}
	}
	// resumePeer: the peer reads again — the blocked Write (and the following ones) succeed
	resumePeer := func() bool {
		pm := r.pending
		r.pending = nil
		r.wmode = wmOK
		r.st.setWriteMode(wmOK)
		emit("OFault 0%N")
		res := awaitPending(pm)
		paths["dispatch:blocked-call-reply-write-blocked:then-peer-reads"] = true
		return finishMsg(pm, res)
	}
	lastOp := ""
	doOp := func(o sop) bool {
		if r.pending != nil && !(o.Kind == opClose || o.Kind == opPeerClose && !sc.Stream) {
			if !resumePeer() {
				return false
			}
		}
		if r.pending == nil && lastOp != "" && !probe(lastOp) {
			return false
		}
		lastOp = o.String()
		if len(r.live) > maxLive {
			maxLive = len(r.live)
		}
		switch o.Kind {
		case opFault:
			r.wmode = o.Mode % wmCount
			r.st.setWriteMode(r.wmode)
			if o.CErr {
				r.cerr = true
				r.st.setCloseErr(errors.New("harness: close of a broken connection"))
			}
			emit(fmt.Sprintf("OFault %d%%N", r.wmode))
		case opMake:
			h := &hh{idx: len(r.hs), f: o.F, fre: o.Fre, cl: o.Cl, capq: o.Cap, q: make(chan *net.Message, o.Cap),
				entered: make(chan struct{}), gate: make(chan struct{}), e: r.e}
			if o.Fre || o.Cl == 2 {
				obs.Contract = false
			}
			var cl net.Closer
			if o.Cl != 0 {
				cl = h.closer
			}
			id := -1
			res := call(func() { id = r.e.MakeHandler(h.filter, h.q, cl) })
			if ended(res, o.String()) {
				return false
			}
			h.slot = id
			r.hs = append(r.hs, h)
			if other, dup := r.live[id]; dup {
				r.fail("MakeHandler returned id %d while handler h%d registered under that id has not been removed", id, other.idx)
			}
			r.live[id] = h
			if id >= tableLen {
				tableLen = id + 1
				paths["make:append"] = true
			} else {
				paths["make:free-slot"] = true
			}
			emitMake(fmt.Sprintf("(%s) %s %d%%N %d%%N", o.F.term(), hx.Bool(o.Fre), o.Cl, o.Cap), id)
		case opRemove:
			var err error
			if len(r.live) >= 2 {
				if _, ok := r.live[o.ID]; ok {
					shutdownWithTwo = true
				}
			}
			res := r.call(func() { err = r.e.RemoveHandler(o.ID) })
			emit(fmt.Sprintf("ORemove (%d)%%Z %s", o.ID, hx.Bool(err == nil)))
			if ended(res, o.String()) {
				return false
			}
			switch {
			case err == nil:
				paths["remove:ok"] = true
			case o.ID < 0:
				paths["remove:negative-id"] = true
			case o.ID >= tableLen:
				paths["remove:beyond-table"] = true
			default:
				paths["remove:empty-slot"] = true
			}
			h, was := r.live[o.ID]
			if was && err != nil {
				r.fail("RemoveHandler(%d) of the registered handler h%d returned an error: %v", o.ID, h.idx, err)
			}
			if !was && err == nil {
				r.fail("RemoveHandler(%d) returned nil although no handler is registered under that id", o.ID)
			}
			if err == nil && was {
				delete(r.live, o.ID)
				h.mu.Lock()
				closed := h.pull()
				cc := int(atomic.LoadInt32(&h.closerCalls))
				h.mu.Unlock()
				want := 0
				if h.cl != 0 {
					want = 1
				}
				if cc != want || !closed {
					r.fail("after RemoveHandler(%d) returned nil: handler h%d has %d close callback calls (want %d), queue closed = %v", o.ID, h.idx, cc, want, closed)
				}
			}
		case opMsg:
			if procExited {
				return true // the process loop has returned: nothing reads the stream any more
			}
			m := o.M.message()
			pm := &pendingMsg{o: o, before: map[*hh]int{}, d: 9}
			for _, h := range r.live {
				h.mu.Lock()
				pm.before[h] = h.consults
				h.mu.Unlock()
			}
			var res string
			pm.wBefore, pm.fBefore = len(r.st.writesSnapshot()), r.st.faults()
			if len(r.live) == 0 {
				paths["dispatch:empty-table"] = true
			}
			blocked := false
			if sc.Stream {
				var wbuf writerBuf
				m.Write(&wbuf)
				r.st.feed(wbuf.b)
				var ok bool
				if blocked, ok = r.st.waitQuiet(opTimeout, true, nil); !ok {
					res = "hang"
				}
			} else {
				pm.done = make(chan struct{})
				go func() {
					defer close(pm.done)
					defer func() {
						if x := recover(); x != nil {
							pm.res = fmt.Sprintf("panic: %v", x)
						}
					}()
					pm.d = dclass(r.dispatch(&m))
				}()
				d := opTimeout
				if !obs.Contract {
					d = 400 * time.Millisecond
				}
				var ok bool
				if blocked, ok = r.st.waitQuiet(d, false, pm.done); !ok {
					res = "hang"
				} else if !blocked {
					<-pm.done
					res = pm.res
				}
			}
			if blocked {
				// dispatch holds the table and waits in the Write of the reply to a Call it could not deliver
				r.pending = pm
				return true
			}
			if !finishMsg(pm, res) {
				return false
			}
		case opClose, opPeerClose:
			if procExited && o.Kind == opPeerClose {
				return true
			}
			pend := r.pending
			if pend != nil {
				// handlers may still be closed by the pending dispatch itself, under the table's lock: hold no closer
				o.Holds = nil
			}
			was := liveInSlotOrder()
			if len(was) >= 2 {
				shutdownWithTwo = true
			}
			for _, h := range r.hs {
				h.madeBefore = true
			}
			for _, h := range was {
				h.mu.Lock()
				h.held = false
				for _, x := range o.Holds {
					if (x == h.idx || x == -1) && h.cl != 0 {
						h.held = true
					}
				}
				h.mu.Unlock()
			}
			var res string
			tbl := "empty-table"
			if len(was) > 0 {
				tbl = "occupied-table"
			}
			if r.cerr {
				paths["shutdown:stream-close-fails"] = true
			}
			what := o.String()
			// finishPending: the shutdown closed the stream first, which ends the blocked Write; the dispatch then
			// finishes under the lock and the shutdown walks the table after it
			finishPending := func(tag string) bool {
				if pend == nil {
					return true
				}
				r.pending = nil
				if res != "" {
					what += " while the dispatch of " + pend.o.String() + " was blocked in the Write of its reply on a stream whose peer does not read (only stream.Close() ends that Write)"
					return true
				}
				paths["dispatch:blocked-call-reply-write-blocked:"+tag] = true
				if !finishMsg(pend, awaitPending(pend)) {
					return false
				}
				was = liveInSlotOrder()
				return true
			}
			pairAt := -1
			if o.Kind == opClose {
				// the endpoint's own reader (NewEndPoint, EndPointFinalizer once it has returned) sees the stream closed:
				// it goes through its shutdown as well, concurrently with this Close()
				ownReader := sc.Ctor != ctorHook && !inSetup && !procExited
				closesBefore := r.st.closeCount()
				res = call(func() { r.e.Close() })
				if !finishPending("then-Close") {
					return false
				}
				emit("OCloseAll false false")
				paths["shutdown:Close:"+tbl] = true
				if ownReader && res == "" {
					if !waitUntil(opTimeout, func() bool { return r.st.closeCount() >= closesBefore+2 }) {
						obs.End = 2
						noteHang()
						r.fail("%s returned and closed the stream; the endpoint's reader did not go through its own shutdown within %v (stream.Close() calls: %d)", what, opTimeout, r.st.closeCount()-closesBefore)
						return false
					}
					emit("OCloseAll true true")
					pairAt = len(obs.Ops) - 2
					procExited = true
					paths["shutdown:Close:then-own-reader"] = true
				}
			} else {
				procExited = true
				closesBefore := r.st.closeCount()
				if o.Var == pcClosedInSetup {
					closesBefore = r.setupCloses
				}
				paths["shutdown:read-error:"+pcName(o.Var)+":"+tbl] = true
				switch o.Var {
				case pcClosedInSetup:
					// nothing to do: the stream answers Read with an error since Close() was called in the callback
				default:
					o.Var %= pcCount
				}
				switch o.Var {
				case pcEOF:
					r.st.fail(io.EOF)
				case pcReset:
					r.st.fail(errors.New("harness: connection reset by peer"))
				case pcTruncated:
					r.st.feed([]byte{0x42, 0xde, 0xad, 0x42, 1, 0, 0, 0, 0, 0, 0, 0, 0})
					r.st.fail(io.EOF)
				case pcBadMagic:
					bad := make([]byte, 28)
					copy(bad, []byte{0x42, 0xde, 0xad, 0x43, 1, 0, 0, 0, 0, 0, 0, 0, 0, 0, 1})
					r.st.feed(bad)
				}
				if sc.Stream && r.procDone == nil {
					// the endpoint started its reader itself (NewEndPoint, EndPointFinalizer): the reader has gone through
					// its closeWith when the stream has been closed once more and the table has been emptied (the
					// scripts of these constructors register nothing after a read error, so the table stays empty)
					if !waitUntil(opTimeout, func() bool {
						if r.st.closeCount() <= closesBefore {
							return false
						}
						for _, occupied := range net.VerifHandlerTable(r.e) {
							if occupied {
								return false
							}
						}
						return true
					}) {
						res = "hang"
					}
				} else if sc.Stream {
					select {
					case <-r.procDone:
					case <-time.After(opTimeout):
						res = "hang"
					}
				} else {
					res = call(r.process)
				}
				if !finishPending("then-read-error") {
					return false
				}
				emit("OCloseAll true true")
			}
			if ended(res, what) {
				return false
			}
			r.live = map[int]*hh{}
			if !afterShutdown(o, was) {
				return false
			}
			if pairAt >= 0 {
				// which of the two walks took the handlers?  The reader's hands its read error to the closers.
				for _, h := range was {
					h.mu.Lock()
					if h.cl != 0 && h.closerArg == 2 {
						obs.Ops[pairAt], obs.Ops[pairAt+1] = obs.Ops[pairAt+1], obs.Ops[pairAt]
						pairAt = -1
						obs.Dist = append(obs.Dist, "own-reader:its-walk-came-before-that-of-Close")
					}
					h.mu.Unlock()
					if pairAt < 0 {
						break
					}
				}
			}
		case opRelease, opReleaseLowest:
			if o.Kind == opReleaseLowest {
				o.H = len(r.hs)
				for _, x := range r.hs {
					x.mu.Lock()
					held := x.held
					x.mu.Unlock()
					if held {
						o.H = x.idx
						break
					}
				}
			}
			if o.H >= len(r.hs) {
				return true
			}
			h := r.hs[o.H]
			h.mu.Lock()
			held := h.held
			h.held = false
			h.mu.Unlock()
			if !held {
				return true
			}
			close(h.gate)
			ok := waitUntil(opTimeout, func() bool { h.mu.Lock(); defer h.mu.Unlock(); return h.pull() })
			if !ok {
				obs.End = 2
				noteHang()
				r.fail("the queue of handler h%d was not closed within %v of its close callback returning", h.idx, opTimeout)
				return false
			}
			emit(fmt.Sprintf("OGoClose %d%%N", h.idx))
		case opRecv:
			if o.H >= len(r.hs) {
				return true
			}
			h := r.hs[o.H]
			h.mu.Lock()
			// only from the queue itself (the stash already left it)
			select {
			case m, ok := <-h.q:
				if ok {
					h.stash = append(h.stash, m.Header.ID)
					h.taken++
					emit(fmt.Sprintf("ORecv %d%%N %d%%N", h.idx, m.Header.ID))
				} else {
					h.closedSeen = true
				}
			default:
			}
			h.mu.Unlock()
		}
		return true
	}
	runOps := func(ops []sop) bool {
		for _, o := range ops {
			if !doOp(o) {
				return false
			}
		}
		return true
	}
	started := func() bool {
		if !r.st.waitIdle(opTimeout) {
			obs.End = 2
			r.fail("the endpoint never started reading")
			return false
		}
		return true
	}
	switch sc.Ctor {
	case ctorHook:
		r.e, r.process, r.dispatch = net.VerifEndPoint(r.st)
		if sc.Stream {
			r.procDone = make(chan struct{})
			go func() {
				defer close(r.procDone)
				r.process()
			}()
		}
		if !sc.Stream || started() {
			runOps(sc.Ops)
		}
	case ctorNewEndPoint:
		r.st.realClose = true
		if res := call(func() { r.e = net.NewEndPoint(r.st) }); res != "" {
			ended(res, "NewEndPoint")
		} else if started() {
			runOps(sc.Ops)
		}
	case ctorFinalizer:
		// the first Setup operations run inside the callback: the endpoint exists, its reader does not yet
		k := sc.Setup
		if k > len(sc.Ops) {
			k = len(sc.Ops)
		}
		r.st.realClose = true
		setupOK, setupDone, ctorDone := false, make(chan struct{}), make(chan struct{})
		go func() {
			defer close(ctorDone)
			e := net.EndPointFinalizer(r.st, func(e net.EndPoint) {
				defer close(setupDone)
				r.e = e
				inSetup = true
				setupOK = runOps(sc.Ops[:k])
				if setupOK && r.pending == nil && lastOp != "" {
					setupOK = probe(lastOp)
					lastOp = ""
				}
				r.setupCloses = r.st.closeCount()
				inSetup = false
			})
			r.e = e
		}()
		select {
		case <-setupDone:
			select {
			case <-ctorDone:
				if setupOK && started() {
					// a stream closed in the callback: the reader that starts now shuts the endpoint down at once
					if r.setupCloses == 0 || doOp(sop{Kind: opPeerClose, Var: pcClosedInSetup}) {
						runOps(sc.Ops[k:])
					}
				}
			case <-time.After(opTimeout):
				obs.End = 2
				noteHang()
				r.fail("EndPointFinalizer did not return within %v of its set-up callback returning", opTimeout)
			}
		case <-time.After(time.Duration(k+2) * 2 * opTimeout):
			obs.End = 2
			noteHang()
			r.fail("the set-up callback of EndPointFinalizer did not finish")
		}
	}
	if len(r.live) > maxLive {
		maxLive = len(r.live)
	}
	if r.pending != nil && obs.End == 0 {
		resumePeer()
	}
	if lastOp != "" && obs.End == 0 {
		probe(lastOp)
	}
	flushRuns()
	// final observation
	for _, h := range r.hs {
		h.mu.Lock()
		closed := h.pull()
		cc := int(atomic.LoadInt32(&h.closerCalls))
		ids := make([]uint64, len(h.stash))
		for i, x := range h.stash {
			ids[i] = uint64(x)
		}
		ht := fmt.Sprintf("(%d%%N, %d%%N, %s, %s)", cc, h.closerArg, hx.Bool(closed), hx.NList(ids))
		switch ht {
		case "(1%N, 1%N, true, [])": // C17Run.hc1
			ht = "hc1"
		case "(0%N, 0%N, true, [])": // C17Run.hc0
			ht = "hc0"
		}
		obs.Hs = append(obs.Hs, ht)
		if obs.End == 0 && obs.Contract {
			if cc > 1 {
				r.fail("handler h%d: close callback invoked %d times", h.idx, cc)
			}
			want := 0
			if h.cl != 0 {
				want = 1
			}
			if h.madeBefore && !h.held && (cc != want || !closed) {
				r.fail("handler h%d was registered before a shutdown: %d close callback calls (want %d), queue closed = %v", h.idx, cc, want, closed)
			}
			if !equalU32(h.stash, h.expect) {
				r.fail("handler h%d received ids %v; its filter selected, while its queue had room, ids %v", h.idx, h.stash, h.expect)
			}
			for _, b := range h.bad {
				r.fail("handler h%d: %s", h.idx, b)
			}
		}
		h.mu.Unlock()
	}
	// let held goroutines go
	r.st.setWriteMode(wmOK)
	for _, h := range r.hs {
		h.mu.Lock()
		if h.held {
			h.held = false
			close(h.gate)
		}
		h.mu.Unlock()
	}
	w, wire, closes := r.st.snapshot()
	for _, f := range w {
		obs.Sent = append(obs.Sent, hx.Hex(f))
	}
	obs.Wire = hx.Hex(wire)
	obs.SClose = closes
	if obs.End == 0 && obs.Contract {
		var ps []string
		for p := range paths {
			ps = append(ps, "path:"+p)
		}
		sort.Strings(ps)
		obs.Dist = append(obs.Dist, ps...)
	}
	if sc.Stream && !procExited {
		r.st.fail(errors.New("harness: end of case"))
	}
	obs.Nontrivial = shutdownWithTwo
	obs.Dist = append(obs.Dist, "mode:"+map[bool]string{true: "stream", false: "direct"}[sc.Stream], "c17script:"+strings.SplitN(sc.Name, "(", 2)[0],
		"maxlive:"+liveBucket(maxLive), fmt.Sprintf("end:%d", obs.End))
	return obs
}

// liveBucket: the largest number of handlers registered at once, exact up to 16, then by power-of-two ranges
func liveBucket(n int) string {
	if n <= 16 {
		return strconv.Itoa(n)
	}
	lo := 16
	for lo*2 < n {
		lo *= 2
	}
	return fmt.Sprintf("%d-%d", lo+1, lo*2)
}

func wireTerm(w string) string {
	if w == "" {
		return hx.Hex(nil)
	}
	return w
}

type writerBuf struct{ b []byte }

func (w *writerBuf) Write(p []byte) (int, error) { w.b = append(w.b, p...); return len(p), nil }

func equalU32(a, b []uint32) bool {
	if len(a) != len(b) {
		return false
	}
	for i := range a {
		if a[i] != b[i] {
			return false
		}
	}
	return true
}

// ---------- generators ----------

func genFilter(rng *hx.Rng) fdesc {
	pick := func(pm, pk float64) bb { return bb{rng.Chance(pm), rng.Chance(pk)} }
	switch rng.Intn(6) {
	case 0: // ReceiveAny: first message, then gone
		return fdesc{Kind: 1, K: 0, A: bb{true, true}, B: bb{true, false}}
	case 1: // client.Call style: one action matches and removes
		t := []bb{{false, true}, {false, true}, {false, true}}
		t[rng.Intn(3)] = bb{true, false}
		return fdesc{Kind: 0, Tab: t}
	case 2: // subscription: matches and keeps, one action unsubscribes
		t := []bb{{true, true}, {true, true}, {false, true}}
		if rng.Bool() {
			t[rng.Intn(3)] = bb{rng.Bool(), false}
		}
		return fdesc{Kind: 0, Tab: t}
	case 3: // stateful: k consultations one way, then another
		return fdesc{Kind: 1, K: rng.Intn(4), A: pick(0.7, 0.9), B: pick(0.6, 0.4)}
	default:
		return fdesc{Kind: 0, Tab: []bb{pick(0.6, 0.8), pick(0.6, 0.8), pick(0.6, 0.8)}}
	}
}

func genScript(rng *hx.Rng, tier string) c17script {
	sc := c17script{Name: "random", Stream: rng.Chance(0.35)}
	n := 4 + rng.Intn(12)
	if tier == "thorough" && rng.Chance(0.2) {
		n += rng.Intn(30)
	}
	made := 0
	var ids []int // ids plausibly live (not tracked exactly: stale ids are wanted too)
	msgID := uint32(1 + rng.Intn(1000))
	shut := false
	emptyAtPeerClose := false
	var held []int
	// a third of the scripts run over a faulty stream: Write fails / makes no progress / is chunked from some
	// point on, Close answers an error; those scripts favour Calls and queues that are full
	faulty := rng.Chance(0.34)
	if faulty {
		sc.Name = "random-faulty-stream"
	}
	genCap := func() int {
		if faulty {
			return rng.Pick(0, 0, 0, 1, 1, 2)
		}
		return rng.Pick(0, 1, 1, 2, 3)
	}
	genF := func() fdesc {
		if faulty && rng.Chance(0.5) {
			return fdesc{Kind: 0, Tab: []bb{{true, true}, {true, true}, {true, rng.Chance(0.8)}}}
		}
		return genFilter(rng)
	}
	pcVar := func() int { return rng.Pick(pcEOF, pcEOF, pcEOF, pcReset, pcTruncated, pcBadMagic) }
	if rng.Chance(0.08) {
		sc.Name = "fill-table"
		k := 9 + rng.Intn(5)
		for i := 0; i < k; i++ {
			sc.Ops = append(sc.Ops, sop{Kind: opMake, F: genFilter(rng), Cl: rng.Pick(0, 1, 1, 1), Cap: rng.Pick(0, 1, 1, 2, 3)})
			ids = append(ids, i)
			made++
		}
	}
	for i := 0; i < n; i++ {
		if faulty && (rng.Chance(0.18) || i == 1) {
			f := sop{Kind: opFault, Mode: rng.Pick(wmOK, wmClosedPipe, wmClosedPipe, wmPartial, wmEOF, wmNoProgress, wmChunked, wmFullEOF, wmBlock, wmBlock), CErr: rng.Chance(0.25)}
			sc.Ops = append(sc.Ops, f)
			if f.Mode == wmBlock && made > 0 && !shut && rng.Chance(0.6) {
				// Calls until some queue is full, then straight to a shutdown (or anything else: the peer then reads again)
				for k := rng.Intn(3) + 1; k > 0; k-- {
					msgID++
					sc.Ops = append(sc.Ops, sop{Kind: opMsg, M: mspec{Typ: 1, Service: 1, Object: 1, Action: uint32(rng.Intn(3)), ID: msgID}})
				}
			}
		}
		x := rng.Intn(100)
		switch {
		case x < 26 || made == 0:
			if emptyAtPeerClose && sc.Stream {
				continue
			}
			sc.Ops = append(sc.Ops, sop{Kind: opMake, F: genF(), Cl: rng.Pick(0, 1, 1, 1), Cap: genCap()})
			// the id it will get is not known here; guess the lowest free one
			ids = append(ids, rng.Intn(made+1))
			made++
		case x < 42:
			id := 0
			switch rng.Intn(8) {
			case 0:
				id = -1 - rng.Intn(3)
			case 1:
				id = 10 + rng.Intn(4)
			case 2:
				id = rng.Intn(12)
			default:
				id = rng.Intn(made + 1)
				if id > 0 && rng.Bool() {
					id = rng.Intn(id)
				}
			}
			sc.Ops = append(sc.Ops, sop{Kind: opRemove, ID: id})
		case x < 74:
			if shut && rng.Chance(0.7) {
				continue
			}
			msgID++
			m := mspec{Typ: uint32(rng.Pick(1, 1, 1, 2, 3, 4, 5, 7)), Service: uint32(rng.Intn(3)), Object: uint32(rng.Intn(3)),
				Action: uint32(rng.Pick(0, 1, 2, 2, 3)), ID: msgID, Payload: rng.Bytes(rng.Pick(0, 0, 1, 5))}
			if faulty && rng.Chance(0.6) {
				m.Typ = 1
			}
			sc.Ops = append(sc.Ops, sop{Kind: opMsg, M: m})
			if faulty && rng.Chance(0.4) {
				// the same again: a queue of capacity 1 is full the second time
				msgID++
				m.ID = msgID
				sc.Ops = append(sc.Ops, sop{Kind: opMsg, M: m})
			}
		case x < 84:
			sc.Ops = append(sc.Ops, sop{Kind: opRecv, H: rng.Intn(made)})
		case x < 91:
			var holds []int
			for h := 0; h < made; h++ {
				if rng.Chance(0.4) {
					holds = append(holds, h)
				}
			}
			held = append(held, holds...)
			sc.Ops = append(sc.Ops, sop{Kind: opClose, Holds: holds})
			shut = true
		case x < 95:
			if shut && sc.Stream {
				// after Close() the table is usually empty: nothing would tell the harness when the
				// process goroutine has gone through its own closeWith; no Make may follow
				emptyAtPeerClose = true
			}
			var holds []int
			for h := 0; h < made; h++ {
				if rng.Chance(0.4) {
					holds = append(holds, h)
				}
			}
			held = append(held, holds...)
			sc.Ops = append(sc.Ops, sop{Kind: opPeerClose, Holds: holds, Var: pcVar()})
			shut = true
			// messages cannot be delivered once the process loop returned
			for j := i + 1; j < n; j++ {
				y := rng.Intn(100)
				switch {
				case y < 30 && !(sc.Stream && emptyAtPeerClose):
					sc.Ops = append(sc.Ops, sop{Kind: opMake, F: genFilter(rng), Cl: rng.Pick(0, 1, 1), Cap: rng.Pick(0, 1, 2)})
					made++
				case y < 55:
					sc.Ops = append(sc.Ops, sop{Kind: opRemove, ID: rng.Intn(made + 1)})
				case y < 70 && len(held) > 0:
					sc.Ops = append(sc.Ops, sop{Kind: opRelease, H: held[rng.Intn(len(held))]})
				case y < 80:
					sc.Ops = append(sc.Ops, sop{Kind: opClose})
				case y < 90:
					sc.Ops = append(sc.Ops, sop{Kind: opRecv, H: rng.Intn(made)})
				}
			}
			return sc
		default:
			if len(held) > 0 {
				sc.Ops = append(sc.Ops, sop{Kind: opRelease, H: held[rng.Intn(len(held))]})
			}
		}
	}
	_ = ids
	return sc
}

// fixed scripts: the shapes the seeded mutations and the contract probes need
var fixed17 []c17script

func fixedScripts() []c17script {
	if fixed17 == nil {
		fixed17 = append(append(baseScripts(), ctorScripts()...), largeFixedScripts()...)
	}
	return fixed17
}

func baseScripts() []c17script {
	keepAll := fdesc{Kind: 0, Tab: []bb{{true, true}, {true, true}, {true, true}}}
	never := fdesc{Kind: 0, Tab: nil}
	once := fdesc{Kind: 1, K: 0, A: bb{true, true}, B: bb{true, false}}
	call := func(id uint32, act uint32) sop {
		return sop{Kind: opMsg, M: mspec{Typ: 1, Service: 1, Object: 1, Action: act, ID: id}}
	}
	ev := func(id uint32, act uint32) sop {
		return sop{Kind: opMsg, M: mspec{Typ: 5, Service: 1, Object: 1, Action: act, ID: id, Payload: []byte{1, 2}}}
	}
	mk := func(f fdesc, cl, cap int) sop { return sop{Kind: opMake, F: f, Cl: cl, Cap: cap} }
	var out []c17script
	for _, stream := range []bool{false, true} {
		out = append(out,
			c17script{Name: "remove-twice", Stream: stream, Ops: []sop{mk(keepAll, 1, 2), mk(never, 1, 1), {Kind: opRemove, ID: 0}, {Kind: opRemove, ID: 0}, call(7, 0), {Kind: opClose}}},
			c17script{Name: "remove-then-traffic", Stream: stream, Ops: []sop{mk(keepAll, 1, 2), mk(keepAll, 0, 2), {Kind: opRemove, ID: 0}, ev(8, 1), ev(9, 1), {Kind: opClose}}},
			c17script{Name: "one-shot-then-traffic", Stream: stream, Ops: []sop{mk(once, 1, 1), mk(keepAll, 1, 3), ev(1, 0), ev(2, 0), ev(3, 0), {Kind: opRemove, ID: 0}, {Kind: opClose}}},
			c17script{Name: "one-shot-then-close", Stream: stream, Ops: []sop{mk(once, 1, 1), mk(once, 0, 1), ev(1, 0), {Kind: opClose}, {Kind: opClose}}},
			c17script{Name: "blocked-call", Stream: stream, Ops: []sop{mk(keepAll, 1, 1), mk(keepAll, 1, 0), call(1, 0), call(2, 1), ev(3, 1), {Kind: opRecv, H: 0}, call(4, 2), {Kind: opClose}}},
			c17script{Name: "close-twice", Stream: stream, Ops: []sop{mk(keepAll, 1, 1), mk(never, 0, 0), mk(never, 1, 0), {Kind: opClose}, {Kind: opClose}, {Kind: opRemove, ID: 1}}},
			c17script{Name: "close-held-reuse", Stream: stream, Ops: []sop{mk(keepAll, 1, 2), mk(keepAll, 1, 2), ev(1, 0), {Kind: opClose, Holds: []int{0, 1}}, mk(keepAll, 1, 2), ev(2, 0), {Kind: opRemove, ID: 1}, {Kind: opRelease, H: 1}, {Kind: opRemove, ID: 0}, {Kind: opRelease, H: 0}}},
			c17script{Name: "peer-close", Stream: stream, Ops: []sop{mk(keepAll, 1, 2), mk(never, 1, 0), mk(once, 0, 1), ev(1, 0), {Kind: opPeerClose}, {Kind: opRemove, ID: 0}}},
			c17script{Name: "peer-close-after-close", Stream: stream, Ops: []sop{mk(keepAll, 1, 2), {Kind: opClose}, {Kind: opPeerClose}, {Kind: opRemove, ID: 0}}},
			c17script{Name: "close-make-peer-close", Stream: false || stream, Ops: []sop{mk(keepAll, 1, 2), {Kind: opClose}, mk(keepAll, 1, 2), mk(never, 0, 0), ev(5, 0), {Kind: opPeerClose}, {Kind: opRemove, ID: 0}}},
			c17script{Name: "remove-bad-ids", Stream: stream, Ops: []sop{{Kind: opRemove, ID: 0}, {Kind: opRemove, ID: -1}, {Kind: opRemove, ID: 10}, mk(never, 1, 0), {Kind: opRemove, ID: 1}, {Kind: opRemove, ID: 10}, {Kind: opRemove, ID: 0}, {Kind: opRemove, ID: 0}}},
		)
		fill := c17script{Name: "fill-12", Stream: stream, Ops: nil}
		for i := 0; i < 12; i++ {
			fill.Ops = append(fill.Ops, mk(keepAll, i%2, 1))
		}
		fill.Ops = append(fill.Ops, sop{Kind: opRemove, ID: 10}, sop{Kind: opRemove, ID: 12}, sop{Kind: opRemove, ID: 3}, mk(never, 1, 0), mk(never, 1, 0), mk(never, 1, 0),
			ev(1, 0), sop{Kind: opRemove, ID: 11}, sop{Kind: opClose}, mk(never, 1, 0))
		out = append(out, fill)
	}
	// faults of the stream while dispatch holds the table: a Call selected by a handler whose queue is full
	// is answered through the stream; every way the Write can end, then every operation that needs the table
	fault := func(mode int, cerr bool) sop { return sop{Kind: opFault, Mode: mode, CErr: cerr} }
	followUps := []struct {
		name string
		ops  []sop
	}{
		{"remove", []sop{{Kind: opRemove, ID: 0}, {Kind: opRemove, ID: 1}, {Kind: opClose}}},
		{"make", []sop{mk(never, 1, 0), {Kind: opRemove, ID: 2}, {Kind: opClose}}},
		{"close", []sop{{Kind: opClose}, {Kind: opRemove, ID: 0}}},
		{"peer-close", []sop{{Kind: opPeerClose}, {Kind: opRemove, ID: 1}}},
		{"traffic", []sop{call(3, 1), ev(4, 0), {Kind: opRecv, H: 1}, call(5, 0), {Kind: opPeerClose, Var: pcReset}}},
	}
	oneShotCall := fdesc{Kind: 0, Tab: []bb{{true, true}, {true, true}, {true, false}}}
	for _, stream := range []bool{false, true} {
		for mode := wmOK + 1; mode < wmCount; mode++ {
			for _, fu := range followUps {
				ops := []sop{mk(keepAll, 1, 0), mk(keepAll, 1, 1), fault(mode, false), call(1, 0), call(2, 0)}
				out = append(out, c17script{Name: "blocked-call-write-" + wmNames[mode] + "-then-" + fu.name, Stream: stream, Ops: append(ops, fu.ops...)})
			}
			// the handler that could not take the Call leaves on that very message (keep == false), the stream
			// recovers, the slot is reused
			out = append(out, c17script{Name: "blocked-call-write-" + wmNames[mode] + "-self-removal", Stream: stream, Ops: []sop{
				mk(oneShotCall, 1, 0), mk(oneShotCall, 0, 0), mk(keepAll, 1, 1), fault(mode, false), call(1, 2), fault(wmOK, false),
				mk(keepAll, 1, 0), call(2, 0), {Kind: opRemove, ID: 0}, {Kind: opClose}}})
		}
		// stream.Close() answers an error; the read side ends in every way, on an empty and on an occupied table
		out = append(out,
			c17script{Name: "close-error-close", Stream: stream, Ops: []sop{mk(keepAll, 1, 1), mk(never, 0, 0), fault(wmClosedPipe, true), call(1, 0), call(2, 0), {Kind: opClose}, {Kind: opClose}, mk(never, 1, 0), {Kind: opRemove, ID: 0}}},
			c17script{Name: "close-error-empty-table", Stream: stream, Ops: []sop{fault(wmOK, true), {Kind: opClose}, {Kind: opRemove, ID: 0}, mk(never, 1, 0), {Kind: opRemove, ID: 0}}},
		)
		for v := 0; v < pcCount; v++ {
			out = append(out,
				c17script{Name: "read-side-" + pcNames[v] + "-occupied", Stream: stream, Ops: []sop{mk(keepAll, 1, 0), mk(keepAll, 0, 1), fault(wmPartial, v%2 == 1), call(1, 0), {Kind: opPeerClose, Var: v, Holds: []int{0}}, {Kind: opRemove, ID: 0}, {Kind: opRelease, H: 0}, {Kind: opClose}}},
				c17script{Name: "read-side-" + pcNames[v] + "-empty", Stream: stream, Ops: []sop{call(1, 0), {Kind: opPeerClose, Var: v}, {Kind: opRemove, ID: 0}, {Kind: opClose}}},
			)
		}
	}
	// the documented contract: callbacks must not call back into the endpoint
	out = append(out,
		c17script{Name: "reenter-closer-remove", Stream: false, Ops: []sop{{Kind: opMake, F: keepAll, Cl: 2, Cap: 1}, {Kind: opRemove, ID: 0}}},
		c17script{Name: "reenter-closer-close", Stream: false, Ops: []sop{{Kind: opMake, F: keepAll, Cl: 2, Cap: 1}, {Kind: opClose}, {Kind: opRemove, ID: 0}}},
		c17script{Name: "reenter-filter", Stream: false, Ops: []sop{{Kind: opMake, F: keepAll, Fre: true, Cl: 1, Cap: 1}, call(1, 0)}},
		c17script{Name: "reenter-closer-nonkeep", Stream: false, Ops: []sop{{Kind: opMake, F: once, Cl: 2, Cap: 1}, ev(1, 0)}},
	)
	return out
}

// ---------- endpoints built by the package's own constructors ----------

// ctorScripts: the endpoint is built by EndPointFinalizer (the first operations run inside its set-up callback,
// when the endpoint exists and its reader does not yet) or by NewEndPoint; the reader is the endpoint's own
// goroutine.  Nothing is registered after a read error (the end of that goroutine is not observable, only its
// effects: the stream closed once more, the table empty).
func ctorScripts() []c17script {
	keepAll := fdesc{Kind: 0, Tab: []bb{{true, true}, {true, true}, {true, true}}}
	never := fdesc{Kind: 0, Tab: nil}
	once := fdesc{Kind: 1, K: 0, A: bb{true, true}, B: bb{true, false}}
	call := func(id uint32, act uint32) sop {
		return sop{Kind: opMsg, M: mspec{Typ: 1, Service: 1, Object: 1, Action: act, ID: id}}
	}
	ev := func(id uint32, act uint32) sop {
		return sop{Kind: opMsg, M: mspec{Typ: 5, Service: 1, Object: 1, Action: act, ID: id, Payload: []byte{1, 2}}}
	}
	mk := func(f fdesc, cl, cap int) sop { return sop{Kind: opMake, F: f, Cl: cl, Cap: cap} }
	fin := func(name string, setup int, ops ...sop) c17script {
		return c17script{Name: name, Stream: true, Ctor: ctorFinalizer, Setup: setup, Ops: ops}
	}
	nep := func(name string, ops ...sop) c17script {
		return c17script{Name: name, Stream: true, Ctor: ctorNewEndPoint, Ops: ops}
	}
	out := []c17script{
		fin("finalizer-register-in-setup", 2, mk(keepAll, 1, 2), mk(once, 0, 1), ev(1, 0), ev(2, 0), sop{Kind: opRemove, ID: 0}, sop{Kind: opClose}),
		fin("finalizer-close-in-setup", 3, mk(keepAll, 1, 1), mk(never, 0, 0), sop{Kind: opClose}, sop{Kind: opRemove, ID: 0}, mk(keepAll, 1, 1), ev(1, 0), sop{Kind: opClose}),
		fin("finalizer-close-empty-in-setup", 1, sop{Kind: opClose}, mk(keepAll, 1, 1), ev(1, 0), sop{Kind: opClose}),
		fin("finalizer-close-held-in-setup", 3, mk(keepAll, 1, 1), mk(keepAll, 1, 1), sop{Kind: opClose, Holds: []int{0}}, mk(keepAll, 0, 1), sop{Kind: opRelease, H: 0}, ev(1, 0), sop{Kind: opPeerClose}, sop{Kind: opRemove, ID: 0}),
		fin("finalizer-remove-in-setup", 4, mk(keepAll, 1, 1), mk(never, 1, 0), sop{Kind: opRemove, ID: 0}, sop{Kind: opRemove, ID: 0}, mk(keepAll, 0, 2), ev(1, 0), sop{Kind: opPeerClose}, sop{Kind: opRemove, ID: 1}),
		fin("finalizer-empty-setup", 0, sop{Kind: opClose}, sop{Kind: opClose}),
		fin("finalizer-close-twice-in-setup", 4, mk(keepAll, 1, 1), sop{Kind: opClose}, sop{Kind: opClose}, mk(keepAll, 1, 1), ev(1, 0), sop{Kind: opClose}),
		fin("finalizer-close-error-in-setup", 3, mk(keepAll, 1, 0), sop{Kind: opFault, Mode: wmClosedPipe, CErr: true}, sop{Kind: opClose}, mk(keepAll, 1, 0), call(1, 0), sop{Kind: opClose}),
		fin("finalizer-fill-12-in-setup", 12, mk(keepAll, 1, 1), mk(never, 0, 0), mk(never, 1, 0), mk(never, 1, 0), mk(never, 1, 0), mk(never, 1, 0), mk(never, 1, 0), mk(never, 1, 0),
			mk(never, 1, 0), mk(never, 1, 0), mk(never, 1, 0), mk(keepAll, 1, 1), ev(1, 0), sop{Kind: opRemove, ID: 11}, sop{Kind: opClose}),
		nep("newendpoint-basic", mk(keepAll, 1, 2), mk(once, 1, 1), ev(1, 0), ev(2, 0), sop{Kind: opRemove, ID: 0}, mk(never, 0, 0), sop{Kind: opClose}, sop{Kind: opClose}),
		nep("newendpoint-close-then-read-error", mk(keepAll, 1, 2), sop{Kind: opClose, Holds: []int{0}}, sop{Kind: opPeerClose}, sop{Kind: opRelease, H: 0}, sop{Kind: opRemove, ID: 0}),
	}
	for v := 0; v < pcCount; v++ {
		out = append(out,
			nep("newendpoint-read-side-"+pcNames[v], mk(keepAll, 1, 2), mk(never, 0, 0), ev(1, 0), sop{Kind: opPeerClose, Var: v, Holds: []int{0}}, sop{Kind: opRemove, ID: 0}, sop{Kind: opRelease, H: 0}, sop{Kind: opClose}),
			fin("finalizer-read-side-"+pcNames[v], 2, mk(keepAll, 1, 2), mk(never, 1, 0), ev(1, 0), sop{Kind: opPeerClose, Var: v}, sop{Kind: opRemove, ID: 1}, sop{Kind: opClose}),
		)
	}
	for i := range out {
		out[i] = ctorSanitize(out[i])
	}
	return out
}

// genCtorScript: a random stream-mode script run on an endpoint built by one of the package's constructors
func genCtorScript(rng *hx.Rng, tier string) c17script {
	var sc c17script
	for {
		sc = genScript(rng, tier)
		if sc.Stream {
			break
		}
	}
	if rng.Chance(0.3) {
		sc.Ctor = ctorNewEndPoint
		sc.Name += "-newendpoint"
		return ctorSanitize(sc)
	}
	sc.Ctor = ctorFinalizer
	sc.Name += "-finalizer"
	lead := 0
	for lead < len(sc.Ops) && sc.Ops[lead].Kind != opMsg && sc.Ops[lead].Kind != opPeerClose {
		lead++
	}
	sc.Setup = lead
	if rng.Chance(0.3) {
		sc.Setup = rng.Intn(lead + 1)
	}
	return ctorSanitize(sc)
}

// ctorSanitize: the endpoint's own reader ends when the stream is closed (Close, read error) and nothing tells the
// harness when its walk over the table is over: nothing is registered after the first shutdown that reader takes
// part in (a Close() inside the set-up callback is followed by registrations inside the callback only).
func ctorSanitize(sc c17script) c17script {
	var ops []sop
	gone, closedInSetup := false, false
	setup := sc.Setup
	for i, o := range sc.Ops {
		in := sc.Ctor == ctorFinalizer && i < sc.Setup
		if in && (o.Kind == opMsg || o.Kind == opPeerClose) {
			setup-- // the reader does not run yet
			continue
		}
		if o.Kind == opMake && (gone || closedInSetup && !in) {
			continue
		}
		if o.Kind == opPeerClose || o.Kind == opClose {
			if in {
				closedInSetup = true
			} else {
				gone = true
			}
		}
		ops = append(ops, o)
	}
	sc.Ops, sc.Setup = ops, setup
	return sc
}

// ---------- large handler tables ----------

// ids next to every small power of two (and to the initial size of the table)
var boundaries17 = []int{0, 1, 7, 8, 9, 10, 11, 15, 16, 17, 31, 32, 33, 63, 64, 65, 127, 128, 129, 255, 256, 257}

// largeScript: n handlers live at once, then — with the table that large — handlers leaving on a message,
// removals at the boundary ids (one at a time and in a batch), registrations that must take exactly the freed
// ids (lowest first, then append), traffic, a shutdown with closers held, reuse of the emptied table.
func largeScript(n int, stream bool) c17script {
	keepAll := fdesc{Kind: 0, Tab: []bb{{true, true}, {true, true}, {true, true}}}
	leaveOn2 := fdesc{Kind: 0, Tab: []bb{{true, true}, {true, true}, {true, false}}}
	never := fdesc{Kind: 0, Tab: nil}
	ev := func(id uint32, act uint32) sop {
		return sop{Kind: opMsg, M: mspec{Typ: 5, Service: 1, Object: 1, Action: act, ID: id, Payload: []byte{1}}}
	}
	mk := func(f fdesc, cl, cap int) sop { return sop{Kind: opMake, F: f, Cl: cl, Cap: cap} }
	isB := map[int]bool{}
	var bs []int
	for _, b := range boundaries17 {
		if b < n {
			isB[b] = true
			bs = append(bs, b)
		}
	}
	leaves := map[int]bool{}
	var ls []int
	for _, b := range []int{9, 17, 33, 65, 129, 257} {
		if b < n {
			leaves[b] = true
			ls = append(ls, b)
		}
	}
	sc := c17script{Name: fmt.Sprintf("large-table-%d", n), Stream: stream}
	add := func(o ...sop) { sc.Ops = append(sc.Ops, o...) }
	for i := 0; i < n; i++ {
		cl := 1
		if i/16%4 == 2 { // ids 32..47, 96..111, 160..175, 224..239: no close callback
			cl = 0
		}
		switch {
		case leaves[i]:
			add(mk(leaveOn2, cl, 2))
		case isB[i] || i == n-1:
			add(mk(keepAll, cl, 2))
		default:
			add(mk(never, cl, 0))
		}
	}
	add(ev(1, 0), ev(2, 2)) // the second one makes the handlers next to the powers of two leave
	for range ls {
		add(mk(never, 1, 0))
	}
	for _, b := range bs {
		add(sop{Kind: opRemove, ID: b}, sop{Kind: opRemove, ID: b}, mk(keepAll, 1, 1))
	}
	for i := len(bs) - 1; i >= 0; i-- {
		add(sop{Kind: opRemove, ID: bs[i]})
	}
	add(ev(3, 1))
	for i := range bs {
		if i%2 == 0 {
			add(mk(keepAll, 1, 1))
		} else {
			add(mk(never, 0, 0))
		}
	}
	add(mk(never, 1, 0)) // the table is full: appended
	add(sop{Kind: opRemove, ID: n}, sop{Kind: opRemove, ID: n + 1}, sop{Kind: opRemove, ID: n - 1}, sop{Kind: opRemove, ID: -1}, sop{Kind: opRemove, ID: n})
	add(ev(4, 0), sop{Kind: opClose, Holds: []int{2, 70}})
	add(mk(keepAll, 1, 1), ev(5, 0), sop{Kind: opReleaseLowest}, sop{Kind: opRemove, ID: 0}, sop{Kind: opReleaseLowest}, sop{Kind: opClose})
	return sc
}

func largeFixedScripts() []c17script {
	return []c17script{largeScript(65, false), largeScript(66, true), largeScript(129, false), largeScript(257, false), largeScript(300, true)}
}

// genLargeScript: 65..300 handlers registered (any n from 1 in the thorough tier), then a random sequence in which
// removals favour the ids around the powers of two and the ends of the table and are mostly followed by a registration
func genLargeScript(rng *hx.Rng, tier string) c17script {
	n := 65 + rng.Intn(236)
	if tier == "thorough" && rng.Chance(0.25) {
		n = 1 + rng.Intn(300)
	}
	never := fdesc{Kind: 0, Tab: nil}
	sc := c17script{Name: "random-large-table", Stream: rng.Chance(0.3)}
	made := 0
	var interesting []int // creation indices of handlers whose filter selects something
	mkOp := func() sop {
		o := sop{Kind: opMake, F: never, Cl: rng.Pick(0, 1, 1, 1), Cap: 0}
		if rng.Chance(0.1) {
			o.F, o.Cap = genFilter(rng), rng.Pick(1, 1, 2, 3)
			interesting = append(interesting, made)
		}
		made++
		return o
	}
	for i := 0; i < n; i++ {
		sc.Ops = append(sc.Ops, mkOp())
	}
	var removed []int
	pickID := func() int {
		switch rng.Intn(10) {
		case 0, 1, 2, 3:
			return boundaries17[rng.Intn(len(boundaries17))] + rng.Pick(-1, 0, 0, 1)
		case 4:
			return 64*(1+rng.Intn(4)) + rng.Intn(64)
		case 5:
			return n + rng.Pick(-2, -1, -1, 0, 1)
		case 6:
			if len(removed) > 0 {
				return removed[rng.Intn(len(removed))]
			}
			return rng.Intn(n)
		case 7:
			return rng.Pick(-1, -2, n+5, 1000)
		}
		return rng.Intn(n + 2)
	}
	msgID := uint32(0)
	shut := false
	var held []int
	m := 25 + rng.Intn(30)
	for i := 0; i < m; i++ {
		x := rng.Intn(100)
		switch {
		case x < 40:
			k := 1
			if rng.Chance(0.25) {
				k = 2 + rng.Intn(4)
			}
			for j := 0; j < k; j++ {
				id := pickID()
				removed = append(removed, id)
				sc.Ops = append(sc.Ops, sop{Kind: opRemove, ID: id})
			}
			if rng.Chance(0.6) {
				for j := rng.Intn(k + 2); j > 0; j-- {
					sc.Ops = append(sc.Ops, mkOp())
				}
			}
		case x < 62:
			sc.Ops = append(sc.Ops, mkOp())
		case x < 84:
			if shut && rng.Chance(0.7) {
				continue
			}
			msgID++
			sc.Ops = append(sc.Ops, sop{Kind: opMsg, M: mspec{Typ: uint32(rng.Pick(1, 5, 5, 5, 2, 7)), Service: 1, Object: 1, Action: uint32(rng.Intn(4)), ID: msgID}})
		case x < 90:
			if len(interesting) > 0 {
				sc.Ops = append(sc.Ops, sop{Kind: opRecv, H: interesting[rng.Intn(len(interesting))]})
			}
		case x < 94:
			var holds []int
			for j := rng.Intn(4); j > 0; j-- {
				holds = append(holds, rng.Intn(made))
			}
			held = append(held, holds...)
			sc.Ops = append(sc.Ops, sop{Kind: opClose, Holds: holds})
			shut = true
		default:
			if len(held) > 0 {
				sc.Ops = append(sc.Ops, sop{Kind: opRelease, H: held[rng.Intn(len(held))]})
			}
		}
	}
	if rng.Chance(0.4) {
		sc.Ops = append(sc.Ops, sop{Kind: opPeerClose, Var: rng.Pick(pcEOF, pcEOF, pcReset, pcTruncated, pcBadMagic)})
	} else {
		sc.Ops = append(sc.Ops, sop{Kind: opClose})
	}
	sc.Ops = append(sc.Ops, sop{Kind: opRemove, ID: pickID()}, mkOp(), sop{Kind: opRemove, ID: 0}, sop{Kind: opClose})
	return sc
}

// the families that follow the random scripts: large tables (random, and in the thorough tier every size 1..300)
// and endpoints built by the package's constructors
func nLarge17(tier string) int {
	if tier == "thorough" {
		return 400
	}
	return 12
}
func nSweep17(tier string) int {
	if tier == "thorough" {
		return 300
	}
	return 0
}
func nCtor17(tier string) int {
	if tier == "thorough" {
		return 2000
	}
	return 40
}
func nExtra17(tier string) int { return nLarge17(tier) + nSweep17(tier) + nCtor17(tier) }

// requiredPaths17: the path tags (runScript) the fixed scripts reach on a tree that satisfies the property
func requiredPaths17() []string {
	out := []string{"make:free-slot", "make:append", "remove:ok", "remove:negative-id", "remove:beyond-table", "remove:empty-slot",
		"dispatch:empty-table", "dispatch:returns-nil", "dispatch:returns-no-match", "dispatch:returns-consumer-blocked", "dispatch:keep-false-closes",
		"shutdown:Close:empty-table", "shutdown:Close:occupied-table", "shutdown:stream-close-fails",
		"dispatch:blocked-call-reply-write-blocked:then-Close", "dispatch:blocked-call-reply-write-blocked:then-read-error",
		"dispatch:blocked-call-reply-write-blocked:then-peer-reads"}
	for _, v := range pcNames {
		out = append(out, "shutdown:read-error:"+v+":empty-table", "shutdown:read-error:"+v+":occupied-table")
	}
	for m, n := range wmNames {
		if m == wmOK || m == wmChunked || m == wmFullEOF {
			out = append(out, "dispatch:blocked-call-reply-written:"+n)
		} else {
			out = append(out, "dispatch:blocked-call-reply-write-fails:"+n)
		}
	}
	return out
}

// ---------- exhaustive enumeration (thorough tier) ----------

func exhAlphabet(n int) []sop {
	keepAll := fdesc{Kind: 0, Tab: []bb{{true, true}, {true, true}, {true, true}}}
	oneShot := fdesc{Kind: 0, Tab: []bb{{true, false}, {false, true}, {false, true}}}
	all := []sop{
		{Kind: opMake, F: keepAll, Cl: 1, Cap: 1},
		{Kind: opMake, F: oneShot, Cl: 0, Cap: 1},
		{Kind: opRemove, ID: 0},
		{Kind: opRemove, ID: 1},
		{Kind: opMsg, M: mspec{Typ: 1, Service: 1, Object: 1, Action: 0, ID: 0}},
		{Kind: opClose, Holds: []int{-1}},
		{Kind: opReleaseLowest},
		{Kind: opRemove, ID: 2},
		{Kind: opPeerClose},
		{Kind: opFault, Mode: wmClosedPipe},
	}
	return all[:n]
}

// exhCount: number of sequences of length 1..maxLen over n letters
func exhCount(n, maxLen int) int {
	t, p := 0, 1
	for l := 1; l <= maxLen; l++ {
		p *= n
		t += p
	}
	return t
}

// exhScript: the k-th sequence (shorter ones first)
func exhScript(n, k int, name string) c17script {
	alpha := exhAlphabet(n)
	l, p := 1, n
	for k >= p {
		k -= p
		p *= n
		l++
	}
	sc := c17script{Name: name}
	ops := make([]sop, l)
	for i := l - 1; i >= 0; i-- {
		ops[i] = alpha[k%n]
		k /= n
	}
	id := uint32(1)
	for i := range ops {
		if ops[i].Kind == opMsg {
			ops[i].M.ID = id
			id++
		}
	}
	sc.Ops = ops
	return sc
}

const (
	exhModelLetters, exhModelLen = 10, 5 // compared with the model in Coq
	exhDeepLetters, exhDeepLen   = 7, 7  // oracle-only
)

func scriptFor(seed uint64, tier string, k int) c17script {
	fx := fixedScripts()
	if k < len(fx) {
		return fx[k]
	}
	nr := nRandom17(tier)
	if j := k - len(fx) - nr; j >= 0 && j < nExtra17(tier) {
		rng := hx.NewRng(hx.NewRng(seed).U64() ^ (uint64(k) * 0xD1342543DE82EF95))
		switch {
		case j < nLarge17(tier):
			return genLargeScript(rng, tier)
		case j < nLarge17(tier)+nSweep17(tier):
			n := j - nLarge17(tier) + 1
			sc := largeScript(n, n%3 == 0)
			sc.Name = fmt.Sprintf("large-table-sweep(n=%d)", n)
			return sc
		}
		return genCtorScript(rng, tier)
	}
	if tier == "thorough" {
		e1 := exhCount(exhModelLetters, exhModelLen)
		if j := k - len(fx) - nr - nExtra17(tier); j >= 0 {
			if j < e1 {
				return exhScript(exhModelLetters, j, "exhaustive")
			}
			// deep part: only the sequences longer than those already covered above
			return exhScript(exhDeepLetters, j-e1+exhCount(exhDeepLetters, exhModelLen), "exhaustive-deep")
		}
	}
	return genScript(hx.NewRng(hx.NewRng(seed).U64()^(uint64(k)*0xD1342543DE82EF95)), tier)
}

func nRandom17(tier string) int {
	if tier == "thorough" {
		return 20000
	}
	return 1500
}

func nCases17(tier string) int {
	n := len(fixedScripts()) + nRandom17(tier) + nExtra17(tier)
	if tier == "thorough" {
		n += exhCount(exhModelLetters, exhModelLen) + exhCount(exhDeepLetters, exhDeepLen) - exhCount(exhDeepLetters, exhModelLen)
	}
	return n
}

// ---------- concurrent stress on a real NewEndPoint ----------

// stressRound: workers register and remove handlers while traffic flows and the connection is shut
// down (Close or read error) at a random moment.  Only per-handler facts that hold for every
// interleaving are checked: close callback at most once (exactly once, followed by the close of the
// queue, for handlers registered before the shutdown began), callback before close, nothing selected
// after the callback, received = selected-while-room, RemoveHandler of a registered keep-always
// handler succeeds and closes it before returning.
var stressDeadline = 20 * time.Second
var stressHangs int

func stressRound(seed uint64, round int) (fails []string, stats map[string]int) {
	rng := hx.NewRng(hx.NewRng(seed).U64() ^ (uint64(round+1) * 0xA24BAED4963EE407))
	stats = map[string]int{}
	st := newHStream()
	e := net.NewEndPoint(st)
	var mu sync.Mutex
	var all []*hh
	var seq int64           // tickets
	var shutdownStart int64 // ticket taken when the shutdown begins (0: not yet)
	nWorkers := 2 + rng.Intn(4)
	perWorker := 5 + rng.Intn(25)
	removeP := 0.6
	// every fifth round: a large table — the workers keep most of what they register, 100..400 handlers are live
	// when the shutdown comes
	large := round%5 == 4
	if large {
		nWorkers = 3 + rng.Intn(3)
		perWorker = 40 + rng.Intn(40)
		removeP = 0.15
	}
	nMsgs := 50 + rng.Intn(300)
	peerClose := rng.Chance(0.4)
	shutAfter := rng.Intn(nMsgs + 1)
	// half of the rounds: from some message on the stream's Write fails (or is chunked), Close answers an error
	faultAt, faultMode := -1, wmOK
	if rng.Chance(0.5) {
		faultAt = rng.Intn(shutAfter + 1)
		faultMode = rng.Pick(wmClosedPipe, wmClosedPipe, wmPartial, wmEOF, wmNoProgress, wmChunked, wmFullEOF, wmBlock)
		if faultMode == wmBlock && peerClose {
			// a process goroutine blocked in Write never sees the read error: only Close() ends such a round
			faultMode = wmClosedPipe
		}
		if rng.Chance(0.3) {
			st.setCloseErr(errors.New("harness: close of a broken connection"))
		}
	}
	var wg sync.WaitGroup
	madeTickets := map[*hh]int64{}
	fail := func(format string, a ...interface{}) {
		mu.Lock()
		fails = append(fails, fmt.Sprintf(format, a...))
		mu.Unlock()
	}
	for w := 0; w < nWorkers; w++ {
		wr := hx.NewRng(rng.U64())
		wg.Add(1)
		go func(w int) {
			defer wg.Done()
			for i := 0; i < perWorker; i++ {
				f := genFilter(wr)
				keepAlways := true
				if f.Kind == 0 {
					for _, x := range f.Tab {
						if !x.K {
							keepAlways = false
						}
					}
				} else if !f.A.K || !f.B.K {
					keepAlways = false
				}
				cl := wr.Pick(0, 1, 1, 1)
				capq := wr.Pick(0, 1, 2, 5, 50)
				h := &hh{f: f, cl: cl, capq: capq, q: make(chan *net.Message, capq), entered: make(chan struct{}), gate: make(chan struct{}), e: e}
				var c net.Closer
				if cl != 0 {
					c = h.closer
				}
				h.slot = e.MakeHandler(h.filter, h.q, c)
				t := atomic.AddInt64(&seq, 1)
				mu.Lock()
				h.idx = len(all)
				all = append(all, h)
				madeTickets[h] = t
				mu.Unlock()
				for k := wr.Intn(20); k > 0; k-- {
					runtime.Gosched()
				}
				if keepAlways && wr.Chance(removeP) {
					err := e.RemoveHandler(h.slot)
					started := atomic.LoadInt64(&shutdownStart) != 0
					if !started {
						if err != nil {
							fail("stress round %d: RemoveHandler(%d) of a registered handler whose filter always keeps it returned %v (no shutdown had begun)", round, h.slot, err)
						} else {
							h.mu.Lock()
							closed := h.pull()
							cc := int(atomic.LoadInt32(&h.closerCalls))
							h.mu.Unlock()
							want := 0
							if cl != 0 {
								want = 1
							}
							if !closed || cc != want {
								fail("stress round %d: after RemoveHandler(%d) returned nil the handler has %d close callback calls (want %d), queue closed = %v", round, h.slot, cc, want, closed)
							}
						}
					}
				}
			}
		}(w)
	}
	wg.Add(1)
	go func() {
		defer wg.Done()
		fr := hx.NewRng(rng.U64())
		for i := 0; i < nMsgs; i++ {
			if i == faultAt {
				st.setWriteMode(faultMode)
			}
			if i == shutAfter {
				atomic.CompareAndSwapInt64(&shutdownStart, 0, atomic.AddInt64(&seq, 1))
				if peerClose {
					st.fail(io.EOF)
					return
				}
				e.Close()
				if fr.Bool() {
					e.Close()
				}
			}
			m := mspec{Typ: uint32(fr.Pick(1, 1, 2, 5)), Service: 1, Object: 1, Action: uint32(fr.Intn(4)), ID: uint32(i + 1), Payload: fr.Bytes(fr.Pick(0, 0, 3))}
			var wb writerBuf
			msg := m.message()
			msg.Write(&wb)
			st.feed(wb.b)
			if fr.Chance(0.3) {
				runtime.Gosched()
			}
		}
		if atomic.CompareAndSwapInt64(&shutdownStart, 0, atomic.AddInt64(&seq, 1)) {
			if peerClose {
				st.fail(io.EOF)
			} else {
				e.Close()
			}
		}
	}()
	donec := make(chan struct{})
	go func() { wg.Wait(); close(donec) }()
	select {
	case <-donec:
	case <-time.After(stressDeadline):
		d := stressDeadline
		stressDeadline = 4 * time.Second // only a broken tree gets here: do not wait as long for the next rounds
		stressHangs++
		return []string{fmt.Sprintf("stress round %d: workers (MakeHandler/RemoveHandler), traffic and shutdown did not finish within %v (deadlock); stream write fault from message %d on: %s, %d faulty writes so far",
			round, d, faultAt, wmNames[faultMode], st.faults())}, stats
	}
	stats["faulty-writes"] += st.faults()
	if len(net.VerifHandlerTable(e)) > 64 {
		stats["rounds-with-more-than-64-handlers-live"]++
	}
	start := atomic.LoadInt64(&shutdownStart)
	mu.Lock()
	hs := append([]*hh(nil), all...)
	mu.Unlock()
	// every handler registered before the shutdown began must end up closed exactly once
	deadline := time.Now().Add(5 * time.Second)
	for _, h := range hs {
		before := madeTickets[h] < start
		want := 0
		if h.cl != 0 {
			want = 1
		}
		if before {
			stats["registered-before-shutdown"]++
			for {
				h.mu.Lock()
				closed := h.pull()
				cc := int(atomic.LoadInt32(&h.closerCalls))
				h.mu.Unlock()
				if closed && cc == want {
					break
				}
				if time.Now().After(deadline) {
					fail("stress round %d: handler registered before the shutdown began: %d close callback calls (want %d), queue closed = %v", round, cc, want, closed)
					break
				}
				time.Sleep(200 * time.Microsecond)
			}
		} else {
			stats["registered-during-or-after-shutdown"]++
		}
	}
	time.Sleep(2 * time.Millisecond)
	for _, h := range hs {
		h.mu.Lock()
		closed := h.pull()
		cc := int(atomic.LoadInt32(&h.closerCalls))
		if cc > 1 {
			fail("stress round %d: close callback invoked %d times", round, cc)
		}
		if closed && h.cl != 0 && cc != 1 {
			fail("stress round %d: queue closed with %d close callback calls", round, cc)
		}
		if closed && !equalU32(h.stash, h.expect) {
			fail("stress round %d: handler (filter %s, cap %d) received ids %v; selected while its queue had room: %v", round, h.f, h.capq, h.stash, h.expect)
		}
		for _, b := range h.bad {
			fail("stress round %d: %s", round, b)
		}
		if closed {
			stats["closed"]++
		}
		stats["handlers"]++
		stats["delivered"] += len(h.stash)
		h.mu.Unlock()
	}
	if !peerClose {
		st.fail(errors.New("harness: end of round"))
	}
	return fails, stats
}

// ---------- race-detector pass (thorough tier) ----------

// raceChild builds qv with -race (needs cgo; skipped with a note when that is not possible) and runs
// one child of it; a data race reported with a frame in bus/net is a failure of the property's
// "whatever races with it": the report is the failing input.
func raceChild(res *hx.Result, outdir, child string, env []string, what string) {
	root := os.Getenv("VERIF_ROOT")
	if root == "" {
		res.Notes = append(res.Notes, "race-detector pass skipped: VERIF_ROOT not set")
		return
	}
	mod := filepath.Join(root, "go")
	if repo := os.Getenv("VERIF_REPO"); repo != "" && repo != "/repo" {
		mod = filepath.Join(root, "_build", "go-alt")
	}
	bin := filepath.Join(root, "_build", "bin", "qv-race")
	build := exec.Command("go", "build", "-race", "-tags", "verif", "-o", bin, "./cmd/qv")
	build.Dir = mod
	build.Env = append(os.Environ(), "CGO_ENABLED=1")
	if b, err := build.CombinedOutput(); err != nil {
		msg := string(b)
		if len(msg) > 300 {
			msg = msg[:300]
		}
		res.Notes = append(res.Notes, "race-detector pass skipped: go build -race failed: "+msg)
		return
	}
	dir := filepath.Join(outdir, "race")
	os.MkdirAll(dir, 0o755)
	cmd := exec.Command(bin, "--seed", fmt.Sprint(res.Seed+1), "--tier", "quick", "--out", dir, child)
	cmd.Env = append(os.Environ(), env...)
	var stderr strings.Builder
	cmd.Stderr = &stderr
	cmd.Stdout = &stderr
	if err := cmd.Start(); err != nil {
		res.Notes = append(res.Notes, "race-detector pass skipped: "+err.Error())
		return
	}
	waitc := make(chan error, 1)
	go func() { waitc <- cmd.Wait() }()
	var werr error
	select {
	case werr = <-waitc:
	case <-time.After(40 * time.Minute):
		cmd.Process.Kill()
		<-waitc
		werr = fmt.Errorf("exceeded 40 min")
	}
	log := stderr.String()
	n := strings.Count(log, "WARNING: DATA RACE")
	if n > 0 {
		i := strings.Index(log, "WARNING: DATA RACE")
		rep := log[i:]
		if j := strings.Index(rep, "=================="); j > 0 {
			rep = rep[:j]
		}
		if len(rep) > 1800 {
			rep = rep[:1800]
		}
		if strings.Contains(rep, "qiloop/bus/net") {
			res.Fail("data-race", fmt.Sprintf("%s under the race detector (seed %d): %d reports; first: %s", what, res.Seed+1, n, rep))
		} else {
			res.Notes = append(res.Notes, fmt.Sprintf("race detector: %d reports without a bus/net frame (harness code): %s", n, rep))
		}
	} else if werr != nil {
		tail := log
		if len(tail) > 600 {
			tail = tail[len(tail)-600:]
		}
		res.Fail("process-died", fmt.Sprintf("%s under the race detector (seed %d): %v: %s", what, res.Seed+1, werr, tail))
	}
	res.Notes = append(res.Notes, fmt.Sprintf("race-detector pass: %s, %d data race reports", what, n))
}

// ---------- child ----------

func childC17(res *hx.Result, rng *hx.Rng, tier string, outdir string) {
	if os.Getenv("QV_C17_REAL") == "1" {
		childReal17(res, tier, outdir)
		return
	}
	if n, _ := strconv.Atoi(os.Getenv("QV_C17_STRESS")); n > 0 {
		f, err := os.OpenFile(filepath.Join(outdir, "C17_stress.jsonl"), os.O_APPEND|os.O_CREATE|os.O_WRONLY, 0o644)
		if err != nil {
			panic(err)
		}
		defer f.Close()
		first, _ := strconv.Atoi(os.Getenv("QV_C17_STRESS_FROM"))
		for k := first; k < n; k++ {
			b, _ := json.Marshal(map[string]interface{}{"begin": k})
			f.Write(append(b, '\n'))
			fails, stats := stressRound(res.Seed, k)
			b, _ = json.Marshal(map[string]interface{}{"round": k, "fails": fails, "stats": stats})
			f.Write(append(b, '\n'))
			if stressHangs >= 5 {
				break // five deadlocked rounds are reported; each leaves goroutines behind
			}
		}
		return
	}
	from, _ := strconv.Atoi(os.Getenv("QV_C17_FROM"))
	to, _ := strconv.Atoi(os.Getenv("QV_C17_TO"))
	f, err := os.OpenFile(filepath.Join(outdir, "C17_obs.jsonl"), os.O_APPEND|os.O_CREATE|os.O_WRONLY, 0o644)
	if err != nil {
		panic(err)
	}
	defer f.Close()
	for k := from; k < to; k++ {
		sc := scriptFor(res.Seed, tier, k)
		b, _ := json.Marshal(map[string]interface{}{"begin": k, "desc": sc.String()})
		f.Write(append(b, '\n'))
		obs := runScript(k, sc)
		if sc.Name == "exhaustive-deep" {
			obs.NoModel = true
			obs.Ops, obs.Hs, obs.Sent = nil, nil, nil
		}
		b, _ = json.Marshal(obs)
		f.Write(append(b, '\n'))
	}
}

// ---------- parent ----------

func runC17(res *hx.Result, rng *hx.Rng, tier string, outdir string) {
	res.Rule = "operation sequences on one endPoint (MakeHandler with scripted table/stateful filters, nil or recording closers, queues of capacity 0..3; " +
		"RemoveHandler of live, stale, negative and out-of-range ids; incoming messages of every type, directly through dispatch or through the stream and the " +
		"endpoint's own process loop; Close with closers held inside their callback; read error on the stream; consumer receives), fixed scripts + random ones; " +
		"tables of 65..300 handlers with removals and registrations at the ids next to the powers of two; endpoints built by EndPointFinalizer (operations inside " +
		"the set-up callback) and NewEndPoint; " +
		"non-trivial = a removal or shutdown happens while >= 2 handlers are registered; distinct by sha256 of the c17script text"
	total := nCases17(tier)
	obsPath := filepath.Join(outdir, "C17_obs.jsonl")
	os.Remove(obsPath)
	cf := hx.NewCases(outdir, "C17", "From QV Require Import Reader Message Endpoint C17Run.", "mismatches cases", res, "cases", "ocase")
	next, crashes := 0, 0
	if rg := strings.Split(os.Getenv("QV_C17_RANGE"), ":"); len(rg) == 2 {
		// development aid: only the cases from:to (indices as in scriptFor); the verdict of such a run is partial
		from, _ := strconv.Atoi(rg[0])
		to, _ := strconv.Atoi(rg[1])
		if from >= 0 && to <= total && from < to {
			next, total = from, to
			res.Notes = append(res.Notes, fmt.Sprintf("PARTIAL RUN: QV_C17_RANGE restricts the operation sequences to indices %d..%d", from, to-1))
		}
	}
	done := map[int]*caseObs{}
	for next < total && crashes < 25 {
		cmd := exec.Command(os.Args[0], "--seed", fmt.Sprint(res.Seed), "--tier", tier, "--out", outdir, "C17.child")
		cmd.Env = append(os.Environ(), fmt.Sprintf("QV_C17_FROM=%d", next), fmt.Sprintf("QV_C17_TO=%d", total))
		var stderr strings.Builder
		cmd.Stderr = &stderr
		cmd.Stdout = &stderr
		if err := cmd.Start(); err != nil {
			res.Notes = append(res.Notes, "cannot start child: "+err.Error())
			break
		}
		waitc := make(chan error, 1)
		go func() { waitc <- cmd.Wait() }()
		limit := 3 * time.Hour
		if tier == "quick" {
			limit = 4 * time.Minute
		}
		var werr error
		select {
		case werr = <-waitc:
		case <-time.After(limit):
			cmd.Process.Kill()
			werr = fmt.Errorf("child exceeded %v", limit)
			<-waitc
		}
		// read what it managed to write
		begun, begunDesc := -1, ""
		if fh, err := os.Open(obsPath); err == nil {
			sc := bufio.NewScanner(fh)
			sc.Buffer(make([]byte, 1<<20), 1<<26)
			for sc.Scan() {
				var probe map[string]json.RawMessage
				if json.Unmarshal(sc.Bytes(), &probe) != nil {
					continue
				}
				if b, ok := probe["begin"]; ok {
					json.Unmarshal(b, &begun)
					json.Unmarshal(probe["desc"], &begunDesc)
					continue
				}
				var o caseObs
				if json.Unmarshal(sc.Bytes(), &o) == nil {
					oc := o
					done[o.Index] = &oc
				}
			}
			fh.Close()
		}
		if werr == nil {
			next = total
			break
		}
		crashes++
		if _, ok := done[begun]; begun >= 0 && !ok {
			tail := stderr.String()
			if i := strings.Index(tail, "panic:"); i >= 0 {
				tail = tail[i:]
			} else if i := strings.Index(tail, "fatal error:"); i >= 0 {
				tail = tail[i:]
			}
			if len(tail) > 600 {
				tail = tail[:600]
			}
			res.Fail("process-died", fmt.Sprintf("operation sequence [%s] killed the process (%v): %s", begunDesc, werr, tail))
			next = begun + 1
		} else {
			res.Notes = append(res.Notes, fmt.Sprintf("child ended with %v outside a case: %s", werr, stderr.String()))
			next = begun + 1
			if begun < 0 {
				break
			}
		}
	}
	for k := 0; k < total; k++ {
		o := done[k]
		if o == nil {
			continue
		}
		for _, f := range o.Fails {
			res.Fail("handler-lifecycle", fmt.Sprintf("operation sequence [%s]: %s", o.Desc, f))
		}
		res.Count(o.Desc, o.Nontrivial)
		for _, d := range o.Dist {
			res.Dist(d)
		}
		if k >= len(fixedScripts()) {
			res.Sample(o.Desc)
		}
		if o.NoModel {
			continue
		}
		cf.Add("cases", fmt.Sprintf("{| c_ops := %s; c_end := %d%%N; c_hs := %s; c_sent := %s; c_wire := %s; c_sclose := %d%%N |}",
			hx.List(o.Ops), o.End, hx.List(o.Hs), hx.List(o.Sent), wireTerm(o.Wire), o.SClose), o.Desc)
	}
	cf.Flush()
	// every way out of MakeHandler / RemoveHandler / dispatch / closeWith must have been taken by a case that ran
	// to its end, i.e. was followed by operations that need the handler table (the probe after every operation)
	var missing []string
	npaths := 0
	for _, p := range requiredPaths17() {
		if res.Distribution["path:"+p] == 0 {
			missing = append(missing, p)
		} else {
			npaths++
		}
	}
	if len(missing) == 0 {
		res.Notes = append(res.Notes, fmt.Sprintf("return paths: all %d listed ways out of MakeHandler/RemoveHandler/dispatch/closeWith (including the reply to a blocked Call under every write fault) were each followed by operations on the handler table that completed", npaths))
	} else {
		res.Notes = append(res.Notes, "return paths NOT reached by a case that ran to its end (expected on a tree where those cases fail): "+strings.Join(missing, ", "))
	}
	if tier == "thorough" && len(done) == total {
		res.Exhaustive = true
		res.Notes = append(res.Notes, fmt.Sprintf("exhaustive: all %d operation sequences of length <= %d over a %d-letter alphabet compared with the model; all %d sequences of length %d..%d over %d letters run against the property oracles",
			exhCount(exhModelLetters, exhModelLen), exhModelLen, exhModelLetters,
			exhCount(exhDeepLetters, exhDeepLen)-exhCount(exhDeepLetters, exhModelLen), exhModelLen+1, exhDeepLen, exhDeepLetters))
	}
	runReal17(res, tier, outdir)
	runStress17(res, tier, outdir)
}

func runStress17(res *hx.Result, tier string, outdir string) {
	rounds := 60
	if tier == "thorough" {
		rounds = 1500
	}
	path := filepath.Join(outdir, "C17_stress.jsonl")
	os.Remove(path)
	next, crashes := 0, 0
	agg := map[string]int{}
	doneRounds := 0
	for next < rounds && crashes < 5 {
		cmd := exec.Command(os.Args[0], "--seed", fmt.Sprint(res.Seed), "--tier", tier, "--out", outdir, "C17.child")
		cmd.Env = append(os.Environ(), fmt.Sprintf("QV_C17_STRESS=%d", rounds), fmt.Sprintf("QV_C17_STRESS_FROM=%d", next))
		var stderr strings.Builder
		cmd.Stderr = &stderr
		cmd.Stdout = &stderr
		if err := cmd.Start(); err != nil {
			res.Notes = append(res.Notes, "cannot start stress child: "+err.Error())
			return
		}
		waitc := make(chan error, 1)
		go func() { waitc <- cmd.Wait() }()
		var werr error
		select {
		case werr = <-waitc:
		case <-time.After(30 * time.Minute):
			cmd.Process.Kill()
			werr = fmt.Errorf("stress child exceeded 30 min")
			<-waitc
		}
		begun := -1
		seen := map[int]bool{}
		if fh, err := os.Open(path); err == nil {
			sc := bufio.NewScanner(fh)
			sc.Buffer(make([]byte, 1<<20), 1<<26)
			for sc.Scan() {
				var rec struct {
					Begin *int           `json:"begin"`
					Round *int           `json:"round"`
					Fails []string       `json:"fails"`
					Stats map[string]int `json:"stats"`
				}
				if json.Unmarshal(sc.Bytes(), &rec) != nil {
					continue
				}
				if rec.Begin != nil {
					begun = *rec.Begin
				}
				if rec.Round != nil && *rec.Round >= next && !seen[*rec.Round] {
					seen[*rec.Round] = true
					doneRounds++
					for _, f := range rec.Fails {
						res.Fail("stress", f)
					}
					for k, v := range rec.Stats {
						agg[k] += v
					}
				}
			}
			fh.Close()
		}
		if werr == nil {
			break
		}
		crashes++
		tail := stderr.String()
		if i := strings.Index(tail, "panic:"); i >= 0 {
			tail = tail[i:]
		} else if i := strings.Index(tail, "fatal error:"); i >= 0 {
			tail = tail[i:]
		}
		if len(tail) > 600 {
			tail = tail[:600]
		}
		res.Fail("process-died", fmt.Sprintf("concurrent stress round %d (seed %d: workers registering/removing handlers, traffic, shutdown) killed the process (%v): %s", begun, res.Seed, werr, tail))
		next = begun + 1
	}
	res.Notes = append(res.Notes, fmt.Sprintf("concurrent stress on net.NewEndPoint: %d rounds, %d handlers (%d registered before the shutdown began, %d closed), %d messages delivered, %d Write calls of the endpoint answered with a fault",
		doneRounds, agg["handlers"], agg["registered-before-shutdown"], agg["closed"], agg["delivered"], agg["faulty-writes"]))
	res.Distribution["stress:rounds"] = doneRounds
	res.Distribution["stress:rounds-with-more-than-64-handlers-live"] = agg["rounds-with-more-than-64-handlers-live"]
	res.Distribution["stress:handlers"] = agg["handlers"]
	if tier == "thorough" {
		raceChild(res, outdir, "C17.child", []string{"QV_C17_STRESS=300", "QV_C17_STRESS_FROM=0"}, "300 concurrent stress rounds on net.NewEndPoint")
		raceChild(res, outdir, "C17.child", []string{"QV_C17_STRESS=0", "QV_C17_FROM=0", fmt.Sprintf("QV_C17_TO=%d", nCases17("quick"))}, "the quick-tier operation sequences")
	}
}
