package main

import (
	"bytes"
	"fmt"
	gonet "net"
	"time"

	"github.com/lugu/qiloop/bus"
	"github.com/lugu/qiloop/bus/net"
)

const c12authRaceWhat = "a client that pipelines frames for service 0 behind its authenticate request ends the server process: firewall() (connection goroutine) reads the capability map of the connection for every frame while service 0 (its mailbox goroutine) writes the authentication state into it: `fatal error: concurrent map read and map write`, which cannot be recovered. Input: on one connection 40 authenticate calls (service 0, object 0, action 8, accepted credentials) in one write, then close; repeated on fresh connections (a race: met within a few hundred connections, i.e. a second or two)"

// c12authRaceProbe hammers one server child with connections that write `burst` authenticate calls
// in one write, for at most d.  It reports whether the server process died, after how many
// connections, and what the server printed last.
func c12authRaceProbe(root string, d time.Duration) (died bool, conns int, note string) {
	ch, err := c12start(root)
	if err != nil {
		return false, 0, "server child did not start: " + err.Error()
	}
	defer ch.stop()
	var pl bytes.Buffer
	bus.WriteCapabilityMap(bus.ClientCap("", ""), &pl)
	var burst []byte
	for i := 0; i < 40; i++ {
		burst = append(burst, c12bytes(net.Call, 0, 0, 8, uint32(i+1), pl.Bytes())...)
	}
	dl := time.Now().Add(d)
	for time.Now().Before(dl) && ch.alive() {
		c, err := gonet.Dial("unix", ch.dir+"/sock")
		if err != nil {
			break
		}
		conns++
		c.SetWriteDeadline(time.Now().Add(time.Second))
		c.Write(burst)
		// read what comes back for a moment (the answers keep the server's goroutines busy), then hang up
		c.SetReadDeadline(time.Now().Add(2 * time.Millisecond))
		buf := make([]byte, 65536)
		for {
			if _, err := c.Read(buf); err != nil {
				break
			}
		}
		c.Close()
	}
	time.Sleep(20 * time.Millisecond)
	if !ch.alive() {
		return true, conns, fmt.Sprintf("the server process died after %d connections", conns)
	}
	// the probe of the property: a fresh client is still answered
	if c12probe(ch, ch.svc, 1) != int(net.Reply) {
		return true, conns, fmt.Sprintf("after %d connections a fresh client's metaObject call is not answered", conns)
	}
	return false, conns, ""
}
