package main

// C13, an emission that lands INSIDE the mailbox goroutine's processing of a request.
//
// addSignalUser is not one critical section: it checks the id under signalsMutex, releases it, installs
// a handler on the caller's endpoint (MakeHandler takes the endpoint's handlersMutex) and only then
// appends the entry under signalsMutex again; removeSignalUser removes the entry and then calls
// RemoveHandler.  Everywhere else in this harness a request is one step (LMbox): whatever an
// implementation keeps from the first half for the second (or for the next emission) is never seen by an
// emitter.  Here the driver stops the mailbox goroutine between the two halves, runs a whole emission
// (snapshot and sends) and lets it go on.
//
// How it is stopped, with nothing but streams: the endpoint of a connection holds its handlersMutex while
// it dispatches a frame, and when the queue of the server's handler is full it answers a Call with an
// Error frame ("consumer blocked") from inside dispatch, that is, it WRITES to the connection under that
// mutex.  So: (1) a call of an unknown action from a connection that is not part of the schedule is being
// answered by the object (its answer is blocked in Write): the mailbox goroutine is busy; (2) the request
// of connection c is released and waits in the object's mailbox; (3) connection c sends calls to ANOTHER
// service of the same server whose object is busy as well, until that object's mailbox (10), the hand of
// the connection's consumer goroutine (1) and the queue of the server's handler (10) are full and dispatch
// answers the next one itself: that Write blocks, the mutex is held; (4) the answer of (1) is released: the
// mailbox goroutine takes the request of c and stops in MakeHandler / RemoveHandler; a goroutine dump tells
// when it is there; (5) the emission; (6) everything held is released, the calls of (3) are answered (the
// client drops the answers), the answer to the request blocks in Write as after every LMbox.
//
// For the model this is an ordinary schedule: the first half of addSignalUser changes nothing, so an
// emission inside a registration is LEmitSnap ... before LMbox c; an emission inside an unregistration finds
// the entry gone: LMbox c, LEmitSnap ...  The frames of (1) and (3) belong to another connection / another
// service and are not part of the observation.

import (
	"bytes"
	"fmt"
	"regexp"
	"runtime"
	"time"

	"github.com/lugu/qiloop/bus"
	"github.com/lugu/qiloop/bus/net"
	"qv/internal/hx"
	"qv/internal/rig"
)

type c13mid struct {
	aux    *c13client // a connection that is not part of the schedule
	sid2   uint32     // a second service of the same server
	nextID uint32
	failed bool
	placed []string // for the replay text of a failing schedule: which emissions ran inside which request
}

func (m *c13mid) id() uint32 { m.nextID++; return m.nextID }

// c13midLeft: placements the generators may still make.  Each one costs one or two dumps of ALL goroutines, and
// every world leaves goroutines behind (the mailbox goroutines of its objects never end): the thorough tier gives
// each generator a budget, spent in its first schedules.
var c13midLeft = 1 << 30

const c13fillers = 48 // more than the 10 + 1 + 10 + 1 that are needed with the pinned capacities

func (w *c13world) midInit() bool {
	if w.mid != nil {
		return !w.mid.failed
	}
	w.mid = &c13mid{nextID: 1 << 20}
	svc, err := w.srv.NewService("qv-filler", c13nop{})
	if err != nil {
		w.mid.failed = true
		return false
	}
	c, s := w.n.Dial()
	ep := net.NewEndPoint(s)
	if err := bus.NewChannel(ep, bus.ClientCap("", "")).Authenticate(); err != nil {
		w.mid.failed = true
		return false
	}
	w.mid.aux, w.mid.sid2 = &c13client{c: c, ep: ep}, svc.ServiceID()
	return true
}

// skipFillers: the answers to the calls of step (3) that are parked in front of the next frame of the
// schedule go to the client (which has no handler for them); not a label.
func (w *c13world) skipFillers(c int) {
	if w.mid == nil || w.mid.failed {
		return
	}
	l := w.clients[c].c.Down
	for i := 0; i < 4*c13fillers; i++ {
		p := l.Parked()
		if len(p) == 0 || !p[0].Head || p[0].Hdr.Service != w.mid.sid2 {
			return
		}
		before := l.Read()
		l.ReleaseOne()
		w.n.WaitFor(c13Wait, func() bool { return l.Read() > before || l.Closed() })
	}
}

// parkedDown: frames of the schedule waiting for the client of connection c.
func (w *c13world) parkedDown(c int) int {
	w.skipFillers(c)
	return len(w.clients[c].c.Down.Parked())
}

var c13midRe = regexp.MustCompile(`qiloop/bus\.\(\*signalHandler\)\.(addSignalUser|removeSignalUser)`)
var c13midBuf = make([]byte, 1<<20)

// c13midInside: a goroutine is inside addSignalUser / removeSignalUser, in MakeHandler / RemoveHandler of an endpoint.
func c13midInside() bool {
	for {
		n := runtime.Stack(c13midBuf, true)
		if n < len(c13midBuf) {
			for _, g := range bytes.Split(c13midBuf[:n], []byte("\n\n")) {
				if c13midRe.Match(g) && (bytes.Contains(g, []byte("net.(*endPoint).MakeHandler")) || bytes.Contains(g, []byte("net.(*endPoint).RemoveHandler"))) {
					return true
				}
			}
			return false
		}
		c13midBuf = make([]byte, 2*len(c13midBuf))
	}
}

// midOK: mboxMid can be played on connection c now.
func (w *c13world) midOK(c int) bool {
	if w.dead || w.emitBusy || !w.driven || c13midLeft <= 0 {
		return false
	}
	if _, busy := w.pendingReply(); busy {
		return false
	}
	if _, rest := w.blockedRest(); rest {
		return false
	}
	up := w.clients[c].c.Up.Parked()
	// one request of the schedule is waiting, and nothing behind it (what is sent in step (3) must reach the server)
	return len(up) == 1 && up[0].Head && up[0].Hdr.Service == w.sid && (up[0].Hdr.Action == 0 || up[0].Hdr.Action == 1) && w.parkedFillers(c) == 0
}

func (w *c13world) parkedFillers(c int) int {
	if w.mid == nil || w.mid.failed {
		return 0
	}
	n := 0
	for _, f := range w.clients[c].c.Down.Parked() {
		if f.Head && f.Hdr.Service == w.mid.sid2 {
			n++
		}
	}
	return n
}

// mboxMid: the next request of connection c reaches the object (label LMbox c, like mbox), and inside()
// — an emission — runs while the mailbox goroutine is between the table operation of that request and the
// handler operation on the caller's endpoint.  Returns false when the emission could not be placed there
// (inside was not called; the request has been processed all the same unless nothing was waiting).
func (w *c13world) mboxMid(c int, inside func()) bool {
	if !w.midOK(c) || !w.midInit() {
		w.mbox(c)
		return false
	}
	c13midLeft--
	m, cl := w.mid, w.clients[c]
	sid, sid2 := w.sid, m.sid2
	aux := m.aux.c
	req := cl.c.Up.Parked()[0]
	giveUp := func(why string) bool {
		w.notes = append(w.notes, "an emission could not be placed inside a request: "+why)
		return false
	}
	// (1) the mailbox goroutine of the object is busy answering somebody else
	aux.Down.SetBlockIf(func(f rig.Frame) bool { return f.Head && f.Hdr.Service == sid })
	hold := net.NewMessage(net.NewHeader(net.Call, sid, 1, 999, m.id()), nil)
	if err := m.aux.ep.Send(hold); err != nil || !w.n.WaitFor(c13Wait, func() bool { return len(aux.Down.Blocked()) > 0 }) {
		aux.Down.SetBlockIf(nil)
		aux.Down.Release(nil)
		w.mbox(c)
		return giveUp("the object did not answer a call of another connection")
	}
	// (2) the request waits in the mailbox (the server's endpoint has dispatched it and is back in Read)
	read := cl.c.Up.Read()
	cl.c.Up.ReleaseOne()
	w.n.WaitFor(c13Wait, func() bool { return cl.c.Up.Read() > read && cl.c.Up.ReaderParked() })
	// (3) calls to the other service until the endpoint answers one from inside dispatch
	cl.c.Down.SetBlockIf(func(f rig.Frame) bool { return f.Head && (f.Hdr.Service == sid || f.Hdr.Service == sid2) })
	first := uint32(0)
	for i := 0; i < c13fillers; i++ {
		id := m.id()
		if i == 0 {
			first = id
		}
		cl.ep.Send(net.NewMessage(net.NewHeader(net.Call, sid2, 1, 999, id), nil))
		cl.c.Up.ReleaseOne()
	}
	underLock := func() bool {
		n, other := 0, false
		for _, b := range cl.c.Down.Blocked() {
			if b.Head && b.Hdr.Service == sid2 {
				n++
				other = other || b.Hdr.ID != first
			}
		}
		return n >= 2 && other
	}
	placed := w.n.WaitFor(c13Block, underLock)
	// (4) the mailbox goroutine goes on with the request of c
	aux.Down.SetBlockIf(nil)
	aux.Down.Release(nil)
	if placed {
		dl := time.Now().Add(c13Block)
		for placed = c13midInside(); !placed && time.Now().Before(dl); placed = c13midInside() {
			time.Sleep(200 * time.Microsecond)
		}
	}
	// (5) the emission: before the entry is appended / after the entry was removed
	if placed && req.Hdr.Action == 1 {
		w.lab("LMbox %d", c)
	}
	if placed {
		ne := len(w.emits)
		inside()
		what := "registerEvent (addSignalUser: after the id check, before the entry is appended)"
		if req.Hdr.Action == 1 {
			what = "unregisterEvent (removeSignalUser: after the entry was removed, before RemoveHandler)"
		}
		for _, e := range w.emits[ne:] {
			m.placed = append(m.placed, fmt.Sprintf("emission %d of signal %d ran from snapshot to last send while the object's mailbox goroutine was inside the %s call %d of connection %d, waiting for the endpoint's handler table", e.p, e.sig, what, req.Hdr.ID, c))
		}
	}
	// (6) everything goes on
	cl.c.Down.SetBlockIf(func(f rig.Frame) bool { return f.Head && f.Hdr.Service == sid })
	for cl.c.Down.Release(func(f rig.Frame) bool { return f.Head && f.Hdr.Service == sid2 }) {
	}
	if w.emitBusy {
		w.trig["snapshot_send"] = true
		w.trig16[[2]int{len(w.emits) - 1, c}] = true
	}
	if !(placed && req.Hdr.Action == 1) {
		w.lab("LMbox %d", c)
	}
	answered := w.n.WaitFor(c13Block, func() bool {
		for _, b := range cl.c.Down.Blocked() {
			if b.Head && b.Hdr.Service == sid && b.Hdr.ID == req.Hdr.ID && (b.Hdr.Type == net.Reply || b.Hdr.Type == net.Error) {
				return true
			}
		}
		return false
	})
	if !answered {
		w.dead = true
		w.notes = append(w.notes, fmt.Sprintf("request %v got no answer", req))
	}
	// every call of step (3) has been answered: nothing of it is on its way any more
	w.n.WaitFor(c13Wait, func() bool {
		n := 0
		for _, f := range cl.c.Down.Frames() {
			if f.Hdr.Service == sid2 && f.Hdr.ID >= first {
				n++
			}
		}
		return n >= c13fillers || cl.c.Down.Closed()
	})
	if !placed {
		return giveUp("the mailbox goroutine was not seen inside addSignalUser / removeSignalUser waiting for the endpoint")
	}
	return true
}

// emitWhole: one emission from snapshot to last send.
func (w *c13world) emitWhole(sig, p uint32) {
	w.emitSnap(sig, p)
	for i := 0; w.emitBusy && i < 64; i++ {
		w.emitSend()
	}
}

// c13midMaybe: one time in three the request that connection c has just sent is processed with an emission inside.
func c13midMaybe(rng *hx.Rng, w *c13world, c, nsig int, payload *uint32) {
	if rng.Intn(3) != 0 || !w.midOK(c) {
		return
	}
	*payload++
	sig, p := c13sigs[rng.Intn(nsig)], c13sized(rng, *payload)
	w.mboxMid(c, func() { w.emitWhole(sig, p) })
}

// ---- scripted schedules ----

func c13midScripts() []func() (*c13world, string) {
	return []func() (*c13world, string){
		func() (*c13world, string) { // a lone subscriber; an emission of its signal inside its registration
			w := c13new(1)
			w.drive()
			a := w.startSub(0, 200, 1)
			w.mboxMid(0, func() { w.emitWhole(200, 701) })
			w.drain()
			w.emitSnap(200, 702)
			w.drain()
			w.emitSnap(200, 703)
			w.drain()
			w.startCancel(a)
			w.mboxMid(0, func() { w.emitWhole(200, 704) }) // ... and inside its unregistration
			w.drain()
			w.emitSnap(200, 705)
			w.drain()
			return w, "emission-inside-registration"
		},
		func() (*c13world, string) { // next to subscribers that are served by every emission, before and after
			w := c13new(3)
			w.drive()
			w.startSub(0, 200, 1)
			w.drain()
			b := w.startSub(1, 201, 2)
			w.drain()
			w.emitSnap(200, 711)
			w.drain()
			w.emitSnap(201, 712)
			w.drain()
			w.startSub(2, 200, 3)
			w.mboxMid(2, func() { w.emitWhole(200, 713) }) // connection 0 gets it, connection 2 is not registered yet
			w.drain()
			w.emitSnap(200, 714) // both
			w.drain()
			w.startSub(1, 200, 4)
			w.mboxMid(1, func() { w.emitWhole(201, 715) }) // an emission of ANOTHER signal inside a registration
			w.drain()
			w.emitSnap(200, 716) // all three
			w.drain()
			w.emitSnap(201, 717)
			w.drain()
			w.startCancel(b)
			w.mboxMid(1, func() { w.emitWhole(200, 718) }) // inside the unregistration of another signal's subscriber
			w.drain()
			w.emitSnap(200, 719)
			w.drain()
			w.emitSnap(201, 720)
			w.drain()
			return w, "emission-inside-registration-others"
		},
		func() (*c13world, string) { // re-subscription cycles on one client, every registration and removal with an emission inside
			w := c13new(2)
			w.drive()
			w.startSub(1, 300, 9)
			w.drain()
			p := uint32(730)
			for i := 0; i < 3; i++ {
				sig := []uint32{300, 106, 300}[i]
				a := w.startSub(0, sig, i+1)
				p++
				w.mboxMid(0, func() { w.emitWhole(sig, p) })
				w.drain()
				p++
				w.emitSnap(sig, c13big(i, p))
				w.drain()
				w.startCancel(a)
				p++
				w.mboxMid(0, func() { w.emitWhole(sig, p) })
				w.drain()
				p++
				w.emitSnap(300, p)
				w.drain()
			}
			return w, "emission-inside-resubscription-cycles"
		},
	}
}
