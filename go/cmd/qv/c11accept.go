package main

// c11accept.go — connections made by the package's own LISTENERS and DIALLERS, lost by a LOCAL
// close while the peer stays silent.
// The runs of c11real.go build their endpoints with net.ConnEndPoint / net.PipeStream over
// connections the harness opened itself, and every peer of every earlier run reacted to a close by
// closing its own side.  A server holds the other kind of connection: the streams returned by
// net.Listen(addr).Accept() (what bus.Server reads its clients from), for tcp://, tcps://, unix://
// and pipe://; and a client holds what net.DialEndPoint(addr) returns.  And a peer need not answer a
// close at all: a stalled or stopped process, a link cut in half, a program that only shuts its
// sending side down.  Here, for every scheme and both ways of obtaining the connection:
//   accepted  stream := net.Listen(scheme://...).Accept(); the peer is a raw connection dialled by
//             the harness (tls.Dial for tcps://, the descriptor exchange of dialPipe for pipe://)
//   dialled   net.DialEndPoint(scheme://...) towards a raw listener of the harness
// the endpoint gets a disconnect callback, a subscription and 1..3 calls in flight, and is then
// closed LOCALLY (endpoint.Close()) while the peer
//   silent        neither reads, writes nor closes — ever
//   reads-on      keeps reading what arrives, but does not close its side when it sees the end
//   mid-frame     has sent the header and half of the payload of a reply, and then fell silent (the
//                 reader of the endpoint is inside a frame; data nobody will read may be in flight)
//   closes-late   closes its side 3 s later — after the bound
// and, as a control, the peer itself closes (peer-close).  Oracles (c11RealRun): every call in flight
// returns an error, the events channel is closed, the callback has run exactly once, a later call
// fails — each within the 2 s bound, whatever the peer does or does not do.  Oracle only: the model
// has the local close (LUserClose1/2) but no peer.

import (
	"crypto/tls"
	"fmt"
	"io"
	gonet "net"
	"os"
	"path/filepath"
	"syscall"
	"time"

	"github.com/lugu/qiloop/bus/net"

	"qv/internal/hx"
)

var c11Schemes = []string{"tcp", "tcps", "unix", "pipe"}

// c11SendFD / c11RecvFD: the descriptor exchange of pipe:// (fd.Put / fd.Get in bus/net).
func c11SendFD(c *gonet.UnixConn, f *os.File) error {
	_, _, err := c.WriteMsgUnix(nil, syscall.UnixRights(int(f.Fd())), nil)
	return err
}

func c11RecvFD(c *gonet.UnixConn) (*os.File, error) {
	oob := make([]byte, syscall.CmsgSpace(4))
	c.SetReadDeadline(time.Now().Add(5 * time.Second))
	_, oobn, _, _, err := c.ReadMsgUnix(nil, oob)
	c.SetReadDeadline(time.Time{})
	if err != nil {
		return nil, err
	}
	msgs, err := syscall.ParseSocketControlMessage(oob[:oobn])
	if err != nil {
		return nil, err
	}
	for i := range msgs {
		fds, err := syscall.ParseUnixRights(&msgs[i])
		if err == nil && len(fds) > 0 {
			return os.NewFile(uintptr(fds[0]), "c11-pipe"), nil
		}
	}
	return nil, fmt.Errorf("no descriptor received")
}

// c11RawPeer: the harness's side of a connection.
type c11RawPeer struct {
	r      io.Reader
	w      io.Writer
	rdl    func(time.Time) error
	closeF func()
}

// c11PipePeer: the peer's half of the pipe:// exchange.  dial: as dialPipe (send the read end of the
// own pipe, receive the other's); otherwise as pipeListener.Accept (receive, then send).
func c11PipePeer(c *gonet.UnixConn, dial bool) (*c11RawPeer, error) {
	r, w, err := os.Pipe()
	if err != nil {
		return nil, err
	}
	var got *os.File
	if dial {
		if err = c11SendFD(c, r); err == nil {
			got, err = c11RecvFD(c)
		}
	} else {
		if got, err = c11RecvFD(c); err == nil {
			err = c11SendFD(c, r)
		}
	}
	r.Close() // the other side holds its own copy now
	if err != nil {
		w.Close()
		c.Close()
		return nil, err
	}
	return &c11RawPeer{r: got, w: w, rdl: got.SetReadDeadline, closeF: func() { got.Close(); w.Close(); c.Close() }}, nil
}

func c11ConnPeer(c gonet.Conn) *c11RawPeer {
	return &c11RawPeer{r: c, w: c, rdl: c.SetReadDeadline, closeF: func() { c.Close() }}
}

// c11OwnLink: one connection of the given scheme whose endpoint side was made by bus/net itself.
func c11OwnLink(dir string, scheme, side string, seq int) (*c11Link, error) {
	type pr struct {
		p   *c11RawPeer
		err error
	}
	var addr string
	switch scheme {
	case "tcp", "tcps":
		addr = "127.0.0.1:0"
	default:
		addr = filepath.Join(dir, fmt.Sprintf("%s-%s-%d", scheme, side, seq))
	}
	var ep net.EndPoint
	var peer *c11RawPeer
	if side == "accepted" {
		lis, err := net.Listen(scheme + "://" + addr)
		if err != nil {
			return nil, fmt.Errorf("net.Listen(%s://%s): %v", scheme, addr, err)
		}
		defer lis.Close()
		if scheme == "tcp" || scheme == "tcps" {
			if addr = net.VerifListenerAddr(lis); addr == "" {
				return nil, fmt.Errorf("net.Listen(%s): no bound address", scheme)
			}
		}
		ch := make(chan pr, 1)
		go func() {
			switch scheme {
			case "tcp":
				c, err := gonet.DialTimeout("tcp", addr, 5*time.Second)
				if err != nil {
					ch <- pr{nil, err}
					return
				}
				ch <- pr{c11ConnPeer(c), nil}
			case "tcps":
				// the handshake completes once the endpoint below reads
				c, err := tls.DialWithDialer(&gonet.Dialer{Timeout: 5 * time.Second}, "tcp", addr, &tls.Config{InsecureSkipVerify: true})
				if err != nil {
					ch <- pr{nil, err}
					return
				}
				ch <- pr{c11ConnPeer(c), nil}
			case "unix":
				c, err := gonet.DialTimeout("unix", addr, 5*time.Second)
				if err != nil {
					ch <- pr{nil, err}
					return
				}
				ch <- pr{c11ConnPeer(c), nil}
			case "pipe":
				c, err := gonet.DialUnix("unix", nil, &gonet.UnixAddr{Name: addr, Net: "unix"})
				if err != nil {
					ch <- pr{nil, err}
					return
				}
				p, err := c11PipePeer(c, true)
				ch <- pr{p, err}
			}
		}()
		type ar struct {
			s   net.Stream
			err error
		}
		ach := make(chan ar, 1)
		go func() { s, err := lis.Accept(); ach <- ar{s, err} }()
		select {
		case a := <-ach:
			if a.err != nil {
				return nil, fmt.Errorf("Accept: %v", a.err)
			}
			ep = net.NewEndPoint(a.s) // as bus.Server does with every stream it accepts
		case <-time.After(5 * time.Second):
			return nil, fmt.Errorf("Accept: deadline")
		}
		select {
		case p := <-ch:
			if p.err != nil {
				c11CloseBounded(ep)
				return nil, fmt.Errorf("dial: %v", p.err)
			}
			peer = p.p
		case <-time.After(5 * time.Second):
			c11CloseBounded(ep)
			return nil, fmt.Errorf("dial: deadline")
		}
	} else {
		var ln gonet.Listener
		var err error
		switch scheme {
		case "tcp":
			ln, err = gonet.Listen("tcp", addr)
		case "tcps":
			var cert tls.Certificate
			if cert, err = c11TLSCert(); err == nil {
				ln, err = tls.Listen("tcp", addr, &tls.Config{Certificates: []tls.Certificate{cert}})
			}
		default:
			ln, err = gonet.Listen("unix", addr)
		}
		if err != nil {
			return nil, fmt.Errorf("listen: %v", err)
		}
		defer ln.Close()
		if scheme == "tcp" || scheme == "tcps" {
			addr = ln.Addr().String()
		}
		ch := make(chan pr, 1)
		go func() {
			c, err := ln.Accept()
			if err != nil {
				ch <- pr{nil, err}
				return
			}
			switch scheme {
			case "tcps":
				tc := c.(*tls.Conn)
				tc.SetDeadline(time.Now().Add(5 * time.Second))
				if err := tc.Handshake(); err != nil {
					c.Close()
					ch <- pr{nil, err}
					return
				}
				tc.SetDeadline(time.Time{})
				ch <- pr{c11ConnPeer(c), nil}
			case "pipe":
				p, err := c11PipePeer(c.(*gonet.UnixConn), false)
				ch <- pr{p, err}
			default:
				ch <- pr{c11ConnPeer(c), nil}
			}
		}()
		type dr struct {
			ep  net.EndPoint
			err error
		}
		dch := make(chan dr, 1)
		go func() { e, err := net.DialEndPoint(scheme + "://" + addr); dch <- dr{e, err} }()
		select {
		case d := <-dch:
			if d.err != nil {
				return nil, fmt.Errorf("net.DialEndPoint(%s://%s): %v", scheme, addr, d.err)
			}
			ep = d.ep
		case <-time.After(5 * time.Second):
			return nil, fmt.Errorf("net.DialEndPoint: deadline")
		}
		select {
		case p := <-ch:
			if p.err != nil {
				c11CloseBounded(ep)
				return nil, fmt.Errorf("accept: %v", p.err)
			}
			peer = p.p
		case <-time.After(5 * time.Second):
			c11CloseBounded(ep)
			return nil, fmt.Errorf("accept: deadline")
		}
	}
	l := &c11Link{ep: ep, peerR: peer.r, peerW: peer.w, peerDL: peer.rdl}
	l.events = map[string]func(){"peer-close": peer.closeF}
	l.wevents = map[string]func() func(){}
	l.cleanup = func() { peer.closeF(); c11CloseBounded(l.ep) }
	return l, nil
}

// c11HalfReply: the header of a reply announcing psize bytes, and the first half of them.
func c11HalfReply(psize int) []byte {
	st := c11Step{kind: "frame", owner: "call", idx: 0, mtype: net.Reply, psize: psize}
	fr := c11StepFrame(st, 4001) // the id of no call of the run
	return fr[:28+psize/2]
}

func c11OwnConnections(res *hx.Result, hang time.Duration, tier string) {
	os.Setenv("QILOOP_CERT_CONF", filepath.Join(os.TempDir(), "c11-no-such-cert.conf")) // listenTLS generates its certificate
	dir, err := os.MkdirTemp("", "c11own-")
	if err != nil {
		res.Fail("c11-schedule", fmt.Sprintf("own connections: %v", err))
		return
	}
	defer os.RemoveAll(dir)
	behaviours := []string{"local-close/peer-silent", "local-close/peer-reads-on", "local-close/peer-mid-frame",
		"local-close/peer-mid-large-frame", "local-close/peer-closes-late", "peer-close"}
	reps := 1
	if tier == "thorough" {
		reps = 4
	}
	failed, runs, seq := 0, 0, 0
	for rep := 0; rep < reps; rep++ {
		for _, scheme := range c11Schemes {
			for _, side := range []string{"accepted", "dialled"} {
				for _, b := range behaviours {
					if failed >= 3 {
						continue // the violation is established; the remaining runs would only wait
					}
					seq++
					pending := 1 + seq%3
					desc := fmt.Sprintf("own connection scheme=%s:// endpoint=%s loss=%s pending=%d", scheme, side, b, pending)
					if side == "accepted" {
						desc += " (stream from net.Listen+Accept, raw peer)"
					} else {
						desc += " (net.DialEndPoint, raw peer)"
					}
					l, err := c11OwnLink(dir, scheme, side, seq)
					if err != nil {
						res.Fail("c11-schedule", fmt.Sprintf("%s: cannot set the connection up: %v", desc, err))
						failed++
						continue
					}
					var late *time.Timer
					fail := func() { go l.ep.Close() }
					switch b {
					case "local-close/peer-silent":
					case "local-close/peer-reads-on":
						l.swallow()
					case "local-close/peer-mid-frame", "local-close/peer-mid-large-frame":
						psize := 600
						if b == "local-close/peer-mid-large-frame" {
							psize = 150000
						}
						half := c11HalfReply(psize)
						fail = func() {
							w := make(chan struct{})
							go func() { l.peerW.Write(half); close(w) }()
							select {
							case <-w:
							case <-time.After(hang / 4):
							}
							time.Sleep(2 * time.Millisecond) // the reader of the endpoint is inside the frame
							go l.ep.Close()
						}
					case "local-close/peer-closes-late":
						l.swallow()
						ev := l.events["peer-close"]
						fail = func() { late = time.AfterFunc(hang+hang/2, ev); go l.ep.Close() }
					case "peer-close":
						l.swallow()
						fail = l.events["peer-close"]
					}
					if !c11RealRun(res, desc, l, pending, "", nil, fail, hang) {
						failed++
					}
					if late != nil {
						late.Stop()
					}
					runs++
					res.Count(desc, true)
					res.Dist("own:" + scheme + "/" + side)
					l.cleanup()
				}
			}
		}
	}
	res.Notes = append(res.Notes, fmt.Sprintf("%d runs over connections made by net.Listen+Accept and net.DialEndPoint (%v), closed locally with a peer that stays silent (oracles only)", runs, c11Schemes))
}
