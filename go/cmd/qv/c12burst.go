package main

// C12, bursts in which the hostile client varies the MESSAGE TYPE of otherwise valid requests.
//
// One burst = 10..200 frames with distinct ids, all for one object (the directory, the generic
// object, the second object of the generic service), written back to back on one connection — in
// one write or one write per frame — with the type of every frame Post / Call / Cancel /
// Capability (uniform or mixed; "mixed8" also the four types the server's filter ignores), the
// action drawn from one class:
//
//	register    registerEvent with fresh user ids
//	unregister  unregisterEvent, of ids registered before the burst (setup calls) and of unknown ids
//	regunreg    both
//	property    property / setProperty / properties / registerEventWithSignature
//	method      metaObject, the statistics and tracing getters, the directory's own methods
//	any         all of them
//
// and the client either reads (it repeats a barrier call until the object itself answers it: all
// answers to the burst have arrived by then), or reads nothing at all, or reads nothing and drops
// the connection right behind the last frame.  The server runs in its own
// child process (killed afterwards), every wait of the client has a deadline: a server that locks
// up costs the probes' deadline, nothing more.  Oracle: as for every C12 script (server alive, a
// fresh client's metaObject call to every object answered within c12Probe).  Bursts that were read
// are also compared with the model (coq/run/C12Run.v, hburst_ok).

import (
	"fmt"
	"strings"
	"time"

	"github.com/lugu/qiloop/bus/net"
	"qv/internal/hx"
)

type c12burstSpec struct {
	types    string // post, call, cancel, capability, mixed4, mixed8
	class    string // register, unregister, regunreg, property, method, any
	target   int    // 0 directory, 1 generic object, 2 second object of the generic service
	n        int
	read     bool
	hangup   bool // (client that does not read) the connection is dropped right behind the last frame
	oneWrite bool
}

func (sp c12burstSpec) String() string {
	return fmt.Sprintf("type-burst[types=%s actions=%s target=%s frames=%d client-reads=%v writes=%s%s]", sp.types, sp.class,
		[]string{"directory", "generic-object", "second-generic-object"}[sp.target], sp.n, sp.read,
		map[bool]string{true: "one", false: "one-per-frame"}[sp.oneWrite], map[bool]string{true: " then-disconnects", false: ""}[sp.hangup])
}

var c12burstTypes = []string{"post", "call", "cancel", "capability", "mixed4", "mixed8"}
var c12burstClasses = []string{"register", "unregister", "regunreg", "property", "method", "any"}

// c12genBurst builds the setup calls and the burst for a server whose second generic object has
// id obj2.  Frames carry the model's numbering (generic service = 2).
func c12genBurst(rng *hx.Rng, sp c12burstSpec, obj2 uint32) (setup, burst []c12frame) {
	tsvc, tobj := uint32(1), uint32(1)
	sigs := []uint32{106, 107}
	switch sp.target {
	case 1:
		tsvc, sigs = 2, []uint32{200, 201}
	case 2:
		tsvc, tobj, sigs = 2, obj2, []uint32{200, 201}
	}
	typ := func() uint8 {
		switch sp.types {
		case "post":
			return net.Post
		case "call":
			return net.Call
		case "cancel":
			return net.Cancel
		case "capability":
			return net.Capability
		case "mixed4":
			return uint8(rng.Pick(int(net.Post), int(net.Call), int(net.Cancel), int(net.Capability)))
		}
		if rng.Chance(0.2) {
			return uint8(rng.Pick(int(net.Reply), int(net.Error), int(net.Event), int(net.Cancelled)))
		}
		return uint8(rng.Pick(int(net.Post), int(net.Call), int(net.Cancel), int(net.Capability)))
	}
	oid := func() uint32 { // "this object": its id or 0
		if rng.Chance(0.2) {
			return 0
		}
		return tobj
	}
	args := func(act uint32, uid uint64) c12frame {
		o, s := oid(), sigs[rng.Intn(len(sigs))]
		return c12frame{svc: tsvc, obj: tobj, act: act, payload: c12args(o, s, uid), cls: c12pack(o, s, uid)}
	}
	// registered before the burst, each unregistered at most once in it
	nSetup := 0
	switch sp.class {
	case "unregister":
		nSetup = sp.n
		if nSetup > 30 {
			nSetup = 30
		}
	case "regunreg", "any":
		nSetup = 12
	}
	for j := 0; j < nSetup; j++ {
		f := args(0, uint64(6000+j))
		f.typ, f.id = net.Call, uint32(11+2*j)
		setup = append(setup, f)
	}
	pending := make([]int, nSetup)
	for j := range pending {
		pending[j] = j
	}
	for j := nSetup - 1; j > 0; j-- {
		k := rng.Intn(j + 1)
		pending[j], pending[k] = pending[k], pending[j]
	}
	unregister := func(k int) c12frame {
		if len(pending) > 0 && rng.Chance(0.7) {
			j := pending[0]
			pending = pending[1:]
			f := setup[j]
			f.act = 1
			return f
		}
		return args(1, uint64(8000+k)) // never registered: refused by the object
	}
	property := func() c12frame {
		f := c12frame{svc: tsvc, obj: tobj}
		switch rng.Intn(4) {
		case 0:
			f.act, f.payload, f.cls = 5, c12valueStr("nope"), c12PFail
		case 1:
			f.act, f.payload, f.cls = 6, append(c12valueStr("x"), c12valueInt(3)...), c12PFail
		case 2:
			f.act, f.cls = 7, c12PGood
		case 3:
			f.act, f.payload, f.cls = 8, append(c12args(tobj, sigs[0], 5), c12str("(i)")...), c12PFail
		}
		return f
	}
	method := func() c12frame {
		f := c12frame{svc: tsvc, obj: tobj}
		// (answers of a few kB only when the client reads them: a client that does not read is the write_blocks finding)
		acts := []uint32{80, 83, 84}
		if sp.read {
			acts = append(acts, 2, 2, 82)
		}
		if sp.target == 0 {
			acts = append(acts, 100, 108, 103, 104, 109)
			if sp.read {
				acts = append(acts, 101)
			}
		}
		f.act, f.cls = acts[rng.Intn(len(acts))], c12PGood
		switch f.act {
		case 2:
			o := oid()
			f.payload, f.cls = c12le32(o), c12pack(o, 0, 0)
		case 100:
			f.payload, f.cls = c12str("nope"), c12PFail
		case 103, 104, 109:
			f.payload, f.cls = c12le32(999), c12PFail
		}
		return f
	}
	for k := 0; k < sp.n; k++ {
		var f c12frame
		class := sp.class
		if class == "any" {
			class = c12burstClasses[rng.Intn(5)]
		}
		if class == "regunreg" {
			class = []string{"register", "unregister"}[rng.Intn(2)]
		}
		switch class {
		case "register":
			f = args(0, uint64(7000+k))
		case "unregister":
			f = unregister(k)
		case "property":
			f = property()
		default:
			f = method()
		}
		f.typ, f.id = typ(), uint32(1001+2*k)
		burst = append(burst, f)
	}
	return setup, burst
}

func c12wire(ch *c12child, f c12frame) []byte {
	svc := f.svc
	if svc == 2 {
		svc = ch.svc
	}
	return c12bytes(f.typ, svc, f.obj, f.act, f.id, f.payload)
}

type c12burstRun struct {
	run     *c12run
	setup   []c12frame
	burst   []c12frame
	got     [][3]uint32
	settled bool // the barrier was answered by the object: the accounting is complete
}

func c12burstRunOne(root string, rng *hx.Rng, sp c12burstSpec) (*c12burstRun, error) {
	ch, err := c12start(root)
	if err != nil {
		return nil, err
	}
	defer ch.stop()
	h, err := c12dial(ch.dir)
	if err != nil {
		return nil, err
	}
	defer h.c.Close()
	br := &c12burstRun{run: &c12run{tags: map[string]bool{}, name: sp.String(), obj2: ch.obj2}}
	br.setup, br.burst = c12genBurst(rng, sp, ch.obj2)
	ok := true
	for _, f := range br.setup {
		if h.write(c12wire(ch, f), time.Second) != nil || !h.await(f.id, c12Answer) {
			ok = false
			break
		}
	}
	h.got, h.sent = nil, nil
	if ok {
		if sp.oneWrite {
			var all []byte
			for _, f := range br.burst {
				all = append(all, c12wire(ch, f)...)
			}
			h.write(all, time.Second)
		} else {
			for _, f := range br.burst {
				if h.write(c12wire(ch, f), 300*time.Millisecond) != nil {
					break
				}
			}
		}
		if sp.read {
			// a barrier call to the same object, repeated while dispatch refuses it (queue still full)
			t := br.burst[0]
			for try, bid := 0, uint32(100001); try < 40 && !br.settled; try, bid = try+1, bid+2 {
				b := c12frame{typ: net.Call, svc: t.svc, obj: t.obj, act: 80, id: bid}
				if h.write(c12wire(ch, b), time.Second) != nil || !h.await(bid, c12Short) {
					break
				}
				if h.got[len(h.got)-1][0] == uint32(net.Reply) {
					br.settled = true
				} else {
					time.Sleep(5 * time.Millisecond)
				}
			}
			for _, g := range h.got {
				if g[2] < 100001 {
					br.got = append(br.got, g)
				}
			}
		} else {
			if sp.hangup {
				h.c.Close()
			}
			time.Sleep(60 * time.Millisecond)
		}
	}
	br.run.sent = strings.Join(h.sent, " ")
	br.run.alive = ch.alive()
	br.run.probes = [3]int{c12probe(ch, 1, 1), c12probe(ch, ch.svc, 1), c12probe(ch, ch.svc, ch.obj2)}
	br.run.alive = br.run.alive && ch.alive()
	return br, nil
}

func (br *c12burstRun) caseTerm() string {
	fr := func(fs []c12frame) string {
		var l []string
		for _, f := range fs {
			l = append(l, fmt.Sprintf("fr %d %d %d %d %d %s", f.typ, f.svc, f.obj, f.act, f.id, f.cls))
		}
		return "[" + strings.Join(l, "; ") + "]%N"
	}
	var g []string
	for _, x := range br.got {
		g = append(g, fmt.Sprintf("(%d, %d, %d)", x[0], x[1], x[2]))
	}
	return fmt.Sprintf("{| b_setup := %s; b_burst := %s; b_got := %s%%N; b_probes := (%d, %d, %d)%%N; b_obj2 := %d%%N |}",
		fr(br.setup), fr(br.burst), hx.List(g), br.run.probes[0], br.run.probes[1], br.run.probes[2], br.run.obj2)
}

// c12bursts: the grid types x action classes.  Classes that take the endpoint's handler table
// (registrations and removals) are run with a client that reads, with one that does not and with
// one that disconnects behind the burst; the other classes with one of the three.
func c12bursts(res *hx.Result, rng *hx.Rng, root, outdir, cfg string, sw map[string]bool, rounds int) {
	bf := hx.NewCases(outdir, "C12b", "From QV Require Import Hostile C12Run.", "bmismatches g bursts", res, "bursts", "hburst")
	bf.Extra = append(bf.Extra, cfg)
	for round := 0; round < rounds; round++ {
		for _, class := range c12burstClasses {
			for _, types := range c12burstTypes {
				// 0 the client reads, 1 it does not, 2 it does not and drops the connection behind the last frame
				modes := []int{rng.Intn(3)}
				if class == "register" || class == "unregister" || class == "regunreg" {
					modes = []int{0, 1, 2}
				}
				for _, mode := range modes {
					read := mode == 0
					sp := c12burstSpec{types: types, class: class, target: rng.Intn(3), read: read, hangup: mode == 2, oneWrite: rng.Chance(0.6)}
					if read {
						sp.n = 100 + rng.Intn(101)
					} else {
						sp.n = 10 + rng.Intn(141)
					}
					br, err := c12burstRunOne(root, rng, sp)
					if err != nil {
						res.Notes = append(res.Notes, sp.String()+": "+err.Error())
						continue
					}
					if sp.hangup {
						for _, f := range br.burst {
							if f.act == 0 {
								br.run.tags["stale_closer"] = true
							}
						}
					}
					if br.run.tags["stale_closer"] && !sw["stale_closer"] && br.run.alive && br.run.probes[sp.target] != int(net.Reply) {
						// the race the switch probe looks for, met here first
						sw["stale_closer"] = true
						res.Switch("stale_closer", true, c12staleCloserWhat)
					}
					head := sp.String() + ": after " + fmt.Sprint(len(br.setup)) + " answered registerEvent calls (user ids 6000..) the client sent "
					br.run.judge(res, sw, head+br.run.sent)
					desc := head + br.run.sent
					if len(desc) > 1500 {
						desc = desc[:1500] + "..."
					}
					res.Count(desc, true)
					res.Dist("kind:type-burst/" + types)
					res.Dist("burst-actions:" + class)
					res.Sample(fmt.Sprintf("%s: probes %v, %d frames read", sp.String(), br.run.probes, len(br.got)))
					if read && br.settled {
						bf.Add("bursts", br.caseTerm(), desc)
					}
				}
			}
		}
	}
	bf.Flush()
}

// c12staleCloserProbe: registerEvent requests still queued when their connection ends.  The
// reader's closeWith empties the endpoint's handler table and starts one closer goroutine per
// handler; the object goes on registering the queued requests into the freed slots; a closer that
// runs late calls RemoveHandler with its OLD slot number, which now holds a NEW handler, whose closer
// is run under handlersMutex and calls RemoveHandler again: that goroutine waits for the mutex it
// holds, and the object's goroutine waits behind it in MakeHandler for ever.  A race: the probe
// repeats (fresh connection each time, same server) until the object stops answering.
const c12staleCloserWhat = "registerEvent requests still queued when their connection ends: a closer started by the reader's closeWith calls RemoveHandler " +
	"with a slot number that the object has meanwhile given to a new registration, runs that handler's closer under handlersMutex, which calls RemoveHandler again; " +
	"the object's goroutine waits in MakeHandler for ever (a race, met after about 10 attempts)"

func c12staleCloserProbe(root string, tries int) (hit bool, n int, sent string) {
	ch, err := c12start(root)
	if err != nil {
		return false, 0, ""
	}
	defer ch.stop()
	for n = 1; n <= tries; n++ {
		h, err := c12dial(ch.dir)
		if err != nil {
			return false, n, ""
		}
		for k := 0; k < 120; k++ { // subscriptions the connection holds: one closer each
			h.writeFrame(net.Call, ch.svc, 1, 0, uint32(11+2*k), c12args(1, 201, uint64(500000+1000*n+k)))
			if !h.await(uint32(11+2*k), c12Answer) {
				break
			}
		}
		h.sent = nil
		var all []byte
		for k := 0; k < 40; k++ {
			all = append(all, c12bytes(net.Call, ch.svc, 1, 0, uint32(1001+2*k), c12args(1, 200, uint64(9000+100*n+k)))...)
		}
		h.write(all, time.Second)
		h.c.Close()
		time.Sleep(10 * time.Millisecond)
		if c12probe(ch, ch.svc, 1) != int(net.Reply) {
			return true, n, strings.Join(h.sent, " ")
		}
	}
	return false, tries, ""
}
