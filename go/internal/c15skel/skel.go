// Package c15skel reads bus/directory/directory.go and directory_stub_gen.go of the tree under
// test and extracts, per directory method, the order of its accesses to the registry state
// (staging, services, lastID), its signal calls and its lock skeleton; per Namespace adapter
// the directory methods it calls; and the action table of the generated stub.
// Used by srcfacts (fact obligations of C15) and by qv (value of the switch unsync_local).
package c15skel

import (
	"bytes"
	"fmt"
	"go/ast"
	"go/parser"
	"go/printer"
	"go/token"
	"path/filepath"
	"sort"
	"strings"
)

// Methods of serviceDirectory that touch the registry.
var Methods = []string{"info", "Service", "Services", "RegisterService", "UnregisterService", "ServiceReady", "UpdateServiceInfo"}

// Adapters: local path, functions that reach the implementation without the mailbox.
var Adapters = [][2]string{{"directoryNamespace", "Reserve"}, {"directoryNamespace", "Remove"}, {"directoryNamespace", "Enable"},
	{"directoryNamespace", "Resolve"}, {"directorySession", "Proxy"}, {"directorySession", "Object"}}

type Method struct {
	Name   string
	Access []string // state accesses, signal calls, returns are not listed
	Sync   string   // "none" | "whole:<mutex>:<Lock|RLock>" | "other:<tokens>"
	Writes bool
}

// SyncParts splits Sync into kind ("none" | "whole" | "other" | "missing"), mutex and lock operation.
func (m Method) SyncParts() (kind, mutex, op string) {
	p := strings.SplitN(m.Sync, ":", 3)
	if p[0] == "whole" && len(p) == 3 {
		return "whole", p[1], p[2]
	}
	if p[0] == "none" || p[0] == "missing" {
		return p[0], "", ""
	}
	return "other", "", strings.TrimPrefix(m.Sync, "other:")
}

type StubRow struct {
	Action uint64
	Impl   string // method of p.impl called by the stub method the action dispatches to
	Calls  int    // how many times
}

type Result struct {
	Methods    []Method
	AdapterFns []string   // "directoryNamespace.Reserve"
	AdapterTo  [][]string // directory methods called, in order; "!state" if the adapter touches a map itself
	Stub       []StubRow
	AllLocked  bool
	NoneLocked bool
	Summary    string
	Err        string
}

func text(fset *token.FileSet, n ast.Node) string {
	var b bytes.Buffer
	printer.Fprint(&b, fset, n)
	return b.String()
}

func recvName(fd *ast.FuncDecl) string {
	if fd.Recv == nil || len(fd.Recv.List) != 1 {
		return ""
	}
	t := fd.Recv.List[0].Type
	if s, ok := t.(*ast.StarExpr); ok {
		t = s.X
	}
	if id, ok := t.(*ast.Ident); ok {
		return id.Name
	}
	return ""
}

func recvVar(fd *ast.FuncDecl) string {
	if fd.Recv == nil || len(fd.Recv.List) != 1 || len(fd.Recv.List[0].Names) != 1 {
		return ""
	}
	return fd.Recv.List[0].Names[0].Name
}

var stateFields = map[string]bool{"staging": true, "services": true, "lastID": true}

// stateField: is e the expression <recv>.<field> for a registry field
func stateField(e ast.Expr, recv string) (string, bool) {
	se, ok := e.(*ast.SelectorExpr)
	if !ok {
		return "", false
	}
	id, ok := se.X.(*ast.Ident)
	if !ok || id.Name != recv || !stateFields[se.Sel.Name] {
		return "", false
	}
	return se.Sel.Name, true
}

// syncCall: <recv>.<mu>.Lock() or <recv>.Lock(): returns (mutex, op)
func syncCall(c *ast.CallExpr, recv string) (string, string, bool) {
	se, ok := c.Fun.(*ast.SelectorExpr)
	if !ok {
		return "", "", false
	}
	op := se.Sel.Name
	if op != "Lock" && op != "Unlock" && op != "RLock" && op != "RUnlock" {
		return "", "", false
	}
	switch x := se.X.(type) {
	case *ast.Ident:
		if x.Name == recv {
			return "(embedded)", op, true
		}
	case *ast.SelectorExpr:
		if id, ok := x.X.(*ast.Ident); ok && id.Name == recv {
			return x.Sel.Name, op, true
		}
	}
	return "", "", false
}

func analyseMethod(fset *token.FileSet, fd *ast.FuncDecl) Method {
	recv := recvVar(fd)
	m := Method{Name: fd.Name.Name}
	var sync []string
	lhs := map[ast.Expr]bool{}
	handled := map[ast.Node]bool{}
	firstAccessSeen := false
	syncBeforeAccess := 0
	add := func(tok string) {
		m.Access = append(m.Access, tok)
		if tok != "check" && !strings.HasPrefix(tok, "Signal") {
			firstAccessSeen = true
		}
	}
	ast.Inspect(fd.Body, func(n ast.Node) bool {
		switch x := n.(type) {
		case *ast.AssignStmt:
			for _, l := range x.Lhs {
				lhs[l] = true
				if ix, ok := l.(*ast.IndexExpr); ok {
					lhs[ix] = true
				}
			}
		case *ast.DeferStmt:
			if mu, op, ok := syncCall(x.Call, recv); ok {
				sync = append(sync, "defer "+op+":"+mu)
				if !firstAccessSeen {
					syncBeforeAccess++
				}
				handled[x.Call] = true
			}
		case *ast.RangeStmt:
			if f, ok := stateField(x.X, recv); ok {
				add("range " + f)
				handled[x.X] = true
			}
		case *ast.IncDecStmt:
			if f, ok := stateField(x.X, recv); ok {
				add(f + x.Tok.String())
				m.Writes = true
				handled[x.X] = true
			}
		case *ast.CallExpr:
			if handled[x] {
				return true
			}
			if mu, op, ok := syncCall(x, recv); ok {
				sync = append(sync, op+":"+mu)
				if !firstAccessSeen {
					syncBeforeAccess++
				}
				return true
			}
			if id, ok := x.Fun.(*ast.Ident); ok {
				switch id.Name {
				case "delete":
					if len(x.Args) == 2 {
						if f, ok := stateField(x.Args[0], recv); ok {
							add("delete " + f)
							m.Writes = true
							handled[x.Args[0]] = true
						}
					}
				case "len":
					if len(x.Args) == 1 {
						if f, ok := stateField(x.Args[0], recv); ok {
							add("len " + f)
							handled[x.Args[0]] = true
						}
					}
				case "checkServiceInfo":
					add("check")
				}
			}
			if se, ok := x.Fun.(*ast.SelectorExpr); ok && strings.HasPrefix(se.Sel.Name, "Signal") {
				add(se.Sel.Name)
			}
		case *ast.IndexExpr:
			if f, ok := stateField(x.X, recv); ok {
				if lhs[x] {
					add(f + "[]=")
					m.Writes = true
				} else {
					add(f + "[]")
				}
				handled[x.X] = true
			}
		case *ast.SelectorExpr:
			if handled[x] {
				return true
			}
			if f, ok := stateField(x, recv); ok {
				if lhs[x] {
					add(f + "=")
					m.Writes = true
				} else {
					add(f)
				}
			}
		}
		return true
	})
	switch {
	case len(sync) == 0:
		m.Sync = "none"
	case len(sync) == 2 && syncBeforeAccess == 2 && (strings.HasPrefix(sync[0], "Lock:") || strings.HasPrefix(sync[0], "RLock:")):
		op := strings.SplitN(sync[0], ":", 2)
		want := "defer Unlock:" + op[1]
		if op[0] == "RLock" {
			want = "defer RUnlock:" + op[1]
		}
		if sync[1] == want {
			m.Sync = "whole:" + op[1] + ":" + op[0]
		} else {
			m.Sync = "other:" + strings.Join(sync, ",")
		}
	default:
		m.Sync = "other:" + strings.Join(sync, ",")
	}
	return m
}

// Analyse parses the two source files under repo.
func Analyse(repo string) Result {
	var r Result
	fset := token.NewFileSet()
	f, err := parser.ParseFile(fset, filepath.Join(repo, "bus/directory/directory.go"), nil, 0)
	if err != nil {
		r.Err = err.Error()
		r.Summary = "cannot parse directory.go: " + r.Err
		return r
	}
	decls := map[string]*ast.FuncDecl{}
	for _, d := range f.Decls {
		if fd, ok := d.(*ast.FuncDecl); ok && fd.Body != nil {
			decls[recvName(fd)+"."+fd.Name.Name] = fd
		}
	}
	for _, name := range Methods {
		fd := decls["serviceDirectory."+name]
		if fd == nil {
			r.Methods = append(r.Methods, Method{Name: name, Sync: "missing"})
			continue
		}
		r.Methods = append(r.Methods, analyseMethod(fset, fd))
	}
	// any other method of serviceDirectory that touches the registry is reported too
	var extra []string
	for k, fd := range decls {
		if strings.HasPrefix(k, "serviceDirectory.") {
			known := false
			for _, n := range Methods {
				if fd.Name.Name == n {
					known = true
				}
			}
			if !known {
				if m := analyseMethod(fset, fd); len(m.Access) > 0 {
					extra = append(extra, fd.Name.Name)
				}
			}
		}
	}
	sort.Strings(extra)
	for _, n := range extra {
		r.Methods = append(r.Methods, analyseMethod(fset, decls["serviceDirectory."+n]))
	}
	for _, a := range Adapters {
		fd := decls[a[0]+"."+a[1]]
		r.AdapterFns = append(r.AdapterFns, a[0]+"."+a[1])
		var to []string
		if fd != nil {
			ast.Inspect(fd.Body, func(n ast.Node) bool {
				switch x := n.(type) {
				case *ast.CallExpr:
					if se, ok := x.Fun.(*ast.SelectorExpr); ok {
						if inner, ok := se.X.(*ast.SelectorExpr); ok && inner.Sel.Name == "directory" {
							to = append(to, se.Sel.Name)
						}
					}
				case *ast.SelectorExpr:
					if stateFields[x.Sel.Name] {
						if inner, ok := x.X.(*ast.SelectorExpr); ok && inner.Sel.Name == "directory" {
							to = append(to, "!state")
						}
					}
				}
				return true
			})
		} else {
			to = []string{"!missing"}
		}
		r.AdapterTo = append(r.AdapterTo, to)
	}
	// stub: action -> stub method -> impl method
	g, err := parser.ParseFile(fset, filepath.Join(repo, "bus/directory/directory_stub_gen.go"), nil, 0)
	if err == nil {
		sd := map[string]*ast.FuncDecl{}
		for _, d := range g.Decls {
			if fd, ok := d.(*ast.FuncDecl); ok && fd.Body != nil && recvName(fd) == "stubServiceDirectory" {
				sd[fd.Name.Name] = fd
			}
		}
		if rcv := sd["Receive"]; rcv != nil {
			ast.Inspect(rcv.Body, func(n ast.Node) bool {
				cc, ok := n.(*ast.CaseClause)
				if !ok || len(cc.List) != 1 || len(cc.Body) != 1 {
					return true
				}
				lit, ok := cc.List[0].(*ast.BasicLit)
				if !ok {
					return true
				}
				var action uint64
				fmt.Sscan(lit.Value, &action)
				ret, ok := cc.Body[0].(*ast.ReturnStmt)
				if !ok || len(ret.Results) != 1 {
					return true
				}
				call, ok := ret.Results[0].(*ast.CallExpr)
				if !ok {
					return true
				}
				se, ok := call.Fun.(*ast.SelectorExpr)
				if !ok {
					return true
				}
				row := StubRow{Action: action, Impl: "?"}
				if m := sd[se.Sel.Name]; m != nil {
					ast.Inspect(m.Body, func(n ast.Node) bool {
						if c, ok := n.(*ast.CallExpr); ok {
							if s2, ok := c.Fun.(*ast.SelectorExpr); ok {
								if in, ok := s2.X.(*ast.SelectorExpr); ok && in.Sel.Name == "impl" {
									row.Impl = s2.Sel.Name
									row.Calls++
								}
							}
						}
						return true
					})
				}
				r.Stub = append(r.Stub, row)
				return true
			})
		}
	}
	r.AllLocked, r.NoneLocked = true, true
	mu := ""
	var parts []string
	for _, m := range r.Methods {
		parts = append(parts, m.Name+"="+m.Sync)
		if m.Sync != "none" {
			r.NoneLocked = false
		}
		if len(m.Access) == 0 {
			continue
		}
		p := strings.Split(m.Sync, ":")
		if len(p) != 3 || p[0] != "whole" || (m.Writes && p[2] != "Lock") {
			r.AllLocked = false
			continue
		}
		if mu == "" {
			mu = p[1]
		} else if mu != p[1] {
			r.AllLocked = false
		}
	}
	r.Summary = strings.Join(parts, " ")
	return r
}
