// Package hx: shared helpers of the qv harness — PRNG, Gallina literal printing,
// case files, result files.
package hx

import (
	"crypto/sha256"
	"encoding/hex"
	"encoding/json"
	"fmt"
	"os"
	"path/filepath"
	"strings"
)

// Rng is splitmix64; every random choice of a run derives from one seed.
type Rng struct{ s uint64 }

func NewRng(seed uint64) *Rng {
	// run the seed through the output function so that neighbouring seeds give unrelated streams
	r := &Rng{seed ^ 0x5DEECE66D1234567}
	r.s = r.U64() ^ (seed * 0xD1342543DE82EF95)
	return r
}
func (r *Rng) U64() uint64 {
	r.s += 0x9E3779B97F4A7C15
	z := r.s
	z = (z ^ (z >> 30)) * 0xBF58476D1CE4E5B9
	z = (z ^ (z >> 27)) * 0x94D049BB133111EB
	return z ^ (z >> 31)
}
func (r *Rng) Intn(n int) int {
	if n <= 0 {
		return 0
	}
	return int(r.U64() % uint64(n))
}
func (r *Rng) Bool() bool            { return r.U64()&1 == 1 }
func (r *Rng) Chance(p float64) bool { return float64(r.U64()%1000000)/1000000.0 < p }
func (r *Rng) Bytes(n int) []byte {
	b := make([]byte, n)
	for i := range b {
		b[i] = byte(r.U64())
	}
	return b
}
func (r *Rng) Pick(xs ...int) int { return xs[r.Intn(len(xs))] }

// U32Boundary draws a uint32 biased to boundary values.
func (r *Rng) U32Boundary() uint32 {
	switch r.Intn(8) {
	case 0:
		return 0
	case 1:
		return 1
	case 2:
		return 0xffffffff
	case 3:
		return 0x7fffffff
	case 4:
		return 0x80000000
	case 5:
		return uint32(1) << uint(r.Intn(32))
	default:
		return uint32(r.U64())
	}
}

// ---------- Gallina literals ----------

func Hex(b []byte) string { return "\"" + hex.EncodeToString(b) + "\"%string" }
func N(v uint64) string   { return fmt.Sprintf("%d%%N", v) }
func Nat(v int) string    { return fmt.Sprintf("%d%%nat", v) }
func Z(v int64) string    { return fmt.Sprintf("(%d)%%Z", v) }
func Bool(b bool) string {
	if b {
		return "true"
	}
	return "false"
}
func List(items []string) string { return "[" + strings.Join(items, "; ") + "]" }
func Str(s string) string {
	return "\"" + strings.ReplaceAll(s, "\"", "\"\"") + "\"%string"
}
func NList(vs []uint64) string {
	it := make([]string, len(vs))
	for i, v := range vs {
		it[i] = N(v)
	}
	return List(it)
}
func NListInt(vs []int) string {
	it := make([]string, len(vs))
	for i, v := range vs {
		it[i] = N(uint64(v))
	}
	return List(it)
}
func NatList(vs []int) string {
	it := make([]string, len(vs))
	for i, v := range vs {
		it[i] = Nat(v)
	}
	return List(it)
}

// ---------- result file ----------

// Failure is a property-level failure observed on the implementation itself.
type Failure struct {
	Kind   string `json:"kind"`            // oracle name
	Detail string `json:"detail"`          // human-readable: the input and what happened
	Known  string `json:"known,omitempty"` // non-empty: matches this known-finding key
}

// Result is what a qv run reports to the orchestrator.
type Result struct {
	Property     string              `json:"property"`
	Seed         uint64              `json:"seed"`
	Tier         string              `json:"tier"`
	Evaluations  int                 `json:"evaluations"`
	Nontrivial   int                 `json:"distinct_nontrivial"`
	Rule         string              `json:"rule"`
	Samples      []string            `json:"samples"`
	Distribution map[string]int      `json:"distribution"`
	Failures     []Failure           `json:"failures"`
	Switches     map[string]bool     `json:"switches"` // defect switches observed on this tree
	SwitchDetail map[string]string   `json:"switch_detail"`
	CaseFiles    []string            `json:"case_files"`
	CaseIndex    map[string][]string `json:"case_index"` // per case file: description of case i
	Exhaustive   bool                `json:"exhaustive"`
	Notes        []string            `json:"notes"`
	seen         map[[32]byte]bool
}

func NewResult(prop string, seed uint64, tier string) *Result {
	return &Result{Property: prop, Seed: seed, Tier: tier, Distribution: map[string]int{},
		Switches: map[string]bool{}, SwitchDetail: map[string]string{}, CaseIndex: map[string][]string{},
		seen: map[[32]byte]bool{}}
}

// Count records one evaluated case; canonical is its canonical text; nontrivial says
// whether it meets the property's non-triviality rule.  Distinctness is by hash.
func (r *Result) Count(canonical string, nontrivial bool) {
	r.Evaluations++
	h := sha256.Sum256([]byte(canonical))
	if r.seen[h] {
		return
	}
	r.seen[h] = true
	if nontrivial {
		r.Nontrivial++
	}
}
func (r *Result) Dist(key string) { r.Distribution[key]++ }
func (r *Result) Sample(s string) {
	if len(r.Samples) < 6 {
		r.Samples = append(r.Samples, s)
	}
}
func (r *Result) Fail(kind, detail string) {
	r.Failures = append(r.Failures, Failure{Kind: kind, Detail: detail})
}
func (r *Result) FailKnown(kind, detail, key string) {
	r.Failures = append(r.Failures, Failure{Kind: kind, Detail: detail, Known: key})
}
func (r *Result) Switch(name string, on bool, detail string) {
	r.Switches[name] = on
	r.SwitchDetail[name] = detail
}

func (r *Result) Write(dir string) error {
	b, _ := json.MarshalIndent(r, "", " ")
	return os.WriteFile(filepath.Join(dir, r.Property+"_result.json"), b, 0o644)
}

// Cases accumulates Gallina definitions and writes them as shards of bounded size
// (Coq's front end reads about 20k characters per second, so shards are kept small
// and evaluated in parallel).
type Cases struct {
	dir, prefix, imports, verdict string
	res                           *Result
	decl                          []string
	types                         map[string]string
	lists                         map[string][]string
	index                         []string
	size, shard                   int
	MaxBytes                      int
	Extra                         []string
}

// NewCases: lists is name/type pairs, declared in every shard; verdict is the Gallina
// expression over those lists whose vm_compute value is printed (index lists, all
// empty when model and implementation agree).
func NewCases(dir, prefix, imports, verdict string, res *Result, lists ...string) *Cases {
	c := &Cases{dir: dir, prefix: prefix, imports: imports, verdict: verdict, res: res,
		types: map[string]string{}, lists: map[string][]string{}, MaxBytes: 60000}
	for i := 0; i+1 < len(lists); i += 2 {
		c.decl = append(c.decl, lists[i])
		c.types[lists[i]] = lists[i+1]
	}
	return c
}

// Add appends a term to a list and records its description.
func (c *Cases) Add(list, term, desc string) {
	if c.size > 0 && c.size+len(term) > c.MaxBytes {
		c.Flush()
	}
	c.lists[list] = append(c.lists[list], term)
	c.index = append(c.index, fmt.Sprintf("%s[%d]: %s", list, len(c.lists[list])-1, desc))
	c.size += len(term) + 4
}

func (c *Cases) Flush() {
	if c.size == 0 {
		return
	}
	name := fmt.Sprintf("%s_%03d", c.prefix, c.shard)
	var b strings.Builder
	b.WriteString("(* generated by qv: cases the implementation ran, with what it did *)\n")
	b.WriteString(c.imports + "\n")
	b.WriteString("From Coq Require Import String List NArith ZArith.\nImport ListNotations.\n")
	for _, e := range c.Extra {
		b.WriteString(e + "\n")
	}
	for _, l := range c.decl {
		fmt.Fprintf(&b, "Definition %s : list (%s) := [\n", l, c.types[l])
		for i, t := range c.lists[l] {
			if i > 0 {
				b.WriteString(";\n")
			}
			b.WriteString("  " + t)
		}
		b.WriteString("].\n")
	}
	fmt.Fprintf(&b, "Definition M := Eval vm_compute in (%s).\nPrint M.\n", c.verdict)
	if err := os.WriteFile(filepath.Join(c.dir, name+".v"), []byte(b.String()), 0o644); err != nil {
		panic(err)
	}
	c.res.CaseFiles = append(c.res.CaseFiles, name+".v")
	c.res.CaseIndex[name+".v"] = c.index
	c.shard++
	c.size = 0
	c.index = nil
	c.lists = map[string][]string{}
}
