package c05rt

import (
	"fmt"
	"math"

	"github.com/lugu/qiloop/type/value"
	"qv/internal/wg"
)

// ---------- every kind of dynamic value the value package offers ----------
//
// wg.GenVal draws a dynamic value as a typed value of a shallow static type and the harness
// used to hand all of them to generated code as value.Opaque(signature, data).  The kinds
// below are what an ordinary caller builds with the constructors of type/value; each is a
// data tree (so the oracles, the harness's own decoder and -- raw data apart -- the model
// treat it like any other value):
//
//	bool, the eight integer widths, float32, string  value.Bool ... value.String (or Opaque)
//	float64, structures, maps, typed lists            value.Opaque (no constructor exists)
//	raw data  (signature r: length, bytes)            value.Raw
//	void      (signature v: no data)                  value.Void
//	list of values (signature [m])                    value.List, elements of every kind again
//	composites with a dynamic member ((im), {sm}, [[m]])  value.Opaque
//
// A dynamic value whose signature is m itself is not drawn: value.NewValue reads it as the
// value inside (recorded asymmetry of C02), so it cannot come back equal by construction.
var DynKinds = []string{"bool", "int8", "uint8", "int16", "uint16", "int32", "uint32", "int64", "uint64",
	"float32", "float64", "str", "raw", "void", "values", "struct", "map", "list", "with-dynamic-member"}

var dynScalar = map[string]string{"bool": "b", "int8": "c", "uint8": "C", "int16": "w", "uint16": "W", "int32": "i", "uint32": "I",
	"int64": "l", "uint64": "L", "float32": "f", "float64": "d", "str": "s"}

var rawTy, voidTy, valuesTy = wg.Scalar("r"), wg.Scalar("v"), wg.List(wg.Scalar("m"))

// composite types with a dynamic value inside (signature.MakeReader knows m, not r)
var dynMemberOpts = wg.GenOpts{MaxDepth: 2, Scalars: "mmmiIsbd", KeyScalar: "sIi", MaxWidth: 3}

func isRawTy(t *wg.Ty) bool { return t != nil && t.K == wg.KScalar && t.S == "r" }

// dyn draws a dynamic value of the given kind.  depth bounds lists of values in lists of values.
func (d *Driver) dyn(kind string, depth int) *wg.Val {
	if l, ok := dynScalar[kind]; ok {
		t := wg.Scalar(l)
		return &wg.Val{K: wg.VDyn, T: t, V: wg.GenVal(d.rng, t, 3)}
	}
	switch kind {
	case "raw":
		// 0 bytes, a few, or enough to cross a buffer of the stream
		n := []int{0, 1, 1 + d.rng.Intn(7), 32 + d.rng.Intn(300)}[d.rng.Intn(4)]
		b := make([]byte, n)
		for i := range b {
			b[i] = byte(d.rng.Intn(256))
		}
		return &wg.Val{K: wg.VDyn, T: rawTy, V: &wg.Val{K: wg.VStr, S: b}}
	case "void":
		return &wg.Val{K: wg.VDyn, T: voidTy, V: &wg.Val{K: wg.VTup}}
	case "values":
		v := &wg.Val{K: wg.VList}
		for n := d.rng.Intn(4); n > 0; n-- {
			k := DynKinds[d.rng.Intn(len(DynKinds))]
			for depth >= 2 && (k == "values" || k == "with-dynamic-member") {
				k = DynKinds[d.rng.Intn(len(DynKinds))]
			}
			v.L = append(v.L, d.dyn(k, depth+1))
		}
		return &wg.Val{K: wg.VDyn, T: valuesTy, V: v}
	case "with-dynamic-member":
		for {
			t := wg.GenTy(d.rng, dynMemberOpts, 0)
			if t.K == wg.KScalar || !t.Has(func(x *wg.Ty) bool { return x.K == wg.KScalar && x.S == "m" }) {
				continue
			}
			// the members: what signature.MakeReader can read (no raw data, see design/C05.md)
			d.plain++
			v := d.redyn(wg.GenVal(d.rng, t, 2), "", depth+2)
			d.plain--
			return &wg.Val{K: wg.VDyn, T: t, V: v}
		}
	}
	want := map[string]wg.Kind{"map": wg.KMap, "list": wg.KList}
	for {
		t := wg.GenTy(d.rng, wg.DynOpts, 0)
		if k, ok := want[kind]; (ok && t.K != k) || (!ok && t.K != wg.KTuple && t.K != wg.KStruct) {
			continue
		}
		return &wg.Val{K: wg.VDyn, T: t, V: wg.GenVal(d.rng, t, 3)}
	}
}

// redyn replaces the dynamic values of a drawn value (the outermost ones: those standing
// where the declared type says any) by values of the kind asked for; kind "" draws a kind
// for each, and keeps half of what wg.GenVal drew.
func (d *Driver) redyn(v *wg.Val, kind string, depth int) *wg.Val {
	switch v.K {
	case wg.VDyn:
		k := kind
		if k == "" {
			if d.rng.Bool() {
				return v
			}
			k = DynKinds[d.rng.Intn(len(DynKinds))]
		}
		if depth >= 2 && (k == "values" || k == "with-dynamic-member") {
			k = "raw"
		}
		if d.plain > 0 && (k == "raw" || k == "values" || k == "with-dynamic-member") {
			k = "void"
		}
		return d.dyn(k, depth)
	case wg.VList, wg.VTup:
		for i, x := range v.L {
			v.L[i] = d.redyn(x, kind, depth)
		}
	case wg.VMap:
		for i := range v.KV {
			v.KV[i][1] = d.redyn(v.KV[i][1], kind, depth)
		}
	}
	return v
}

// hasRaw: raw data somewhere in the value (the Gallina model has no type for signature r:
// such passages are compared by the oracles only).
func hasRaw(v *wg.Val) bool {
	switch v.K {
	case wg.VDyn:
		return isRawTy(v.T) || hasRaw(v.V)
	case wg.VList, wg.VTup:
		for _, x := range v.L {
			if hasRaw(x) {
				return true
			}
		}
	case wg.VMap:
		for _, kv := range v.KV {
			if hasRaw(kv[0]) || hasRaw(kv[1]) {
				return true
			}
		}
	}
	return false
}

// mkValue builds the value.Value a caller would: with the constructor of the value package
// where one exists (for half of the values, told by their bytes, so that value.Opaque of a
// plain scalar stays exercised), value.Opaque otherwise.
func mkValue(v *wg.Val) value.Value {
	t, enc := v.T, v.V.Enc()
	sum := len(enc)
	for _, b := range enc {
		sum += int(b)
	}
	switch {
	case isRawTy(t):
		return value.Raw(append([]byte(nil), v.V.S...))
	case t.K == wg.KScalar && t.S == "v":
		return value.Void()
	case t.K == wg.KList && t.Elem.K == wg.KScalar && t.Elem.S == "m" && (sum%2 == 0 || hasRaw(v.V)):
		l := make([]value.Value, len(v.V.L))
		for i, x := range v.V.L {
			if x.K != wg.VDyn {
				return value.Opaque(t.Sig(), enc)
			}
			l[i] = mkValue(x)
		}
		return value.List(l)
	case t.K == wg.KScalar && sum%2 == 0:
		x, sh := v.V.Bits, uint(64-8*v.V.W)
		switch t.S {
		case "b":
			return value.Bool(v.V.B)
		case "c":
			return value.Int8(int8(int64(x<<sh) >> sh))
		case "C":
			return value.Uint8(uint8(x))
		case "w":
			return value.Int16(int16(int64(x<<sh) >> sh))
		case "W":
			return value.Uint16(uint16(x))
		case "i":
			return value.Int(int32(int64(x<<sh) >> sh))
		case "I":
			return value.Uint(uint32(x))
		case "l":
			return value.Long(int64(x))
		case "L":
			return value.Ulong(x)
		case "f":
			return value.Float(math.Float32frombits(uint32(x)))
		case "s":
			return value.String(string(v.V.S))
		}
	}
	return value.Opaque(t.Sig(), enc)
}

// drawProp draws the value of a property.  A property of type exactly any holds every kind
// of dynamic value.  A property of a composite type with a dynamic member travels through
// the generic setProperty / property methods as ONE dynamic value of that composite type,
// which the receiving side reads with the signature reader (meta/signature), and that
// reader has no raw data (`parse signature: r`): such a property refuses raw data inside
// (seen on the pinned tree, see design/C05.md) and is driven without it.
func (d *Driver) drawProp(t *wg.Ty, maxLen int) *wg.Val {
	if !(t.K == wg.KScalar && t.S == "m") {
		d.plain++
		defer func() { d.plain-- }()
	}
	return d.draw(t, maxLen)
}

func noRawKind(kind string) bool { return kind != "raw" && kind != "values" && kind != "with-dynamic-member" }

func hasDyn(t *wg.Ty) bool {
	return t != nil && t.Has(func(x *wg.Ty) bool { return x.K == wg.KScalar && x.S == "m" })
}

// dynPass repeats every action that has a dynamic value somewhere in its types (and carries
// no object) once per kind, with every dynamic value of the drawn arguments, result, payload
// and property value of that kind.
func (d *Driver) dynPass(t target, maxLen int) {
	helper := func() interface{} {
		d.mu.Lock()
		defer d.mu.Unlock()
		return d.helpers[t.it.Key+t.inst]
	}()
	defer func() { d.dynKind = "" }()
	for _, kind := range DynKinds {
		d.dynKind = kind
		for _, act := range t.it.Actions {
			some := hasDyn(act.Ret) || hasDyn(act.Payload)
			for _, p := range act.Params {
				some = some || hasDyn(p)
			}
			if hasObj(act) || !some {
				continue
			}
			if act.Kind == "prop" && !(act.Payload.K == wg.KScalar && act.Payload.S == "m") && !noRawKind(kind) {
				continue // see drawProp
			}
			rec := Record{Via: t.via, Iface: t.it.Name, Kind: act.Kind, Name: act.Name, ID: act.ID, Note: "dynamic values of kind " + kind}
			func() {
				defer func() {
					if e := recover(); e != nil {
						firstErr(&rec, fmt.Sprintf("panic: %v", e))
					}
				}()
				switch act.Kind {
				case "fn":
					d.method(&rec, act, t, maxLen)
				case "sig":
					d.signal(&rec, act, t, helper, maxLen)
				case "prop":
					d.property(&rec, act, t, helper, maxLen)
				}
			}()
			d.out.Encode(rec)
		}
	}
}
