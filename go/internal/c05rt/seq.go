package c05rt

import (
	"fmt"
	"reflect"
	"sync"
	"time"

	"qv/internal/wg"
)

// ---------- sequences on one stub / proxy pair ----------
//
// The first pass looks at one action at a time and reads a property right after writing it.
// A sequence makes many operations on the same generated stub and the same generated proxy
// -- Update<P> and Signal<S> through the helper, Set<P>, Get<P> and method calls through the
// proxy, for different properties and signals in a drawn order -- with every signal and
// property subscribed once for the whole run.  Oracles: every Get<P> returns the value P
// was last given (by whichever way, however long ago), every event carries the payload that
// was emitted.  What the proxy handed out (getter results, events) is kept as it came and
// is looked at only after the last step, so a value that shares memory with something
// written later shows as well.

type seqSub struct {
	act    Action
	cancel func()
	sent   int // events the steps made so far should have produced
	mu     sync.Mutex
	got    []reflect.Value
}

func (s *seqSub) count() int {
	s.mu.Lock()
	defer s.mu.Unlock()
	return len(s.got)
}

// drain keeps receiving from the channel a generated Subscribe method returned.
func (s *seqSub) drain(ch reflect.Value) {
	for {
		v, ok := ch.Recv()
		if !ok {
			return
		}
		s.mu.Lock()
		s.got = append(s.got, v)
		s.mu.Unlock()
	}
}

// wait until n events have arrived (step deadline).
func (s *seqSub) wait(n int) bool {
	deadline := time.Now().Add(stepTimeout)
	for s.count() < n {
		if time.Now().After(deadline) {
			return false
		}
		time.Sleep(200 * time.Microsecond)
	}
	return true
}

// one thing to check once the sequence is over
type seqCheck struct {
	what  string
	step  int
	ty    *wg.Ty
	val   *wg.Val // what the receiving side must hold
	data  []byte
	seen  bool
	sub   *seqSub // event: number idx of that subscription
	idx   int
	held  reflect.Value // getter result
	valid bool          // held / the event is there
	op    int           // model step (-1: none)
	id    uint32
}

func short(s string) string {
	if len(s) > 90 {
		return s[:90] + fmt.Sprintf("...(%d characters)", len(s))
	}
	return s
}

func (d *Driver) sequence(t target, maxLen, steps int) {
	if steps <= 0 {
		return
	}
	helper := func() interface{} {
		d.mu.Lock()
		defer d.mu.Unlock()
		return d.helpers[t.it.Key+t.inst]
	}()
	var props, sigs, fns []Action
	for _, a := range t.it.Actions {
		if hasObj(a) {
			continue
		}
		switch a.Kind {
		case "prop":
			props = append(props, a)
		case "sig":
			sigs = append(sigs, a)
		case "fn":
			fns = append(fns, a)
		}
	}
	if len(props)+len(sigs) == 0 {
		return
	}
	rec := Record{Via: t.via, Iface: t.it.Name, Kind: "seq", Name: "sequence", Note: "sequence"}
	defer func() { d.out.Encode(rec) }()
	defer func() {
		if e := recover(); e != nil {
			firstErr(&rec, fmt.Sprintf("panic: %v", e))
		}
	}()
	subs := map[string]*seqSub{}
	for _, a := range append(append([]Action{}, props...), sigs...) {
		name := a.Proxy
		if a.Kind == "prop" {
			name = a.Sub
		}
		cancel, ch, ok := d.subscribe(&rec, t.proxy, name)
		if !ok {
			rec.Err = fmt.Sprintf("%s of %s %s: %s", name, a.Kind, a.Name, rec.Err)
			break
		}
		s := &seqSub{act: a, cancel: cancel}
		subs[a.Key] = s
		go s.drain(ch)
	}
	defer func() {
		for _, s := range subs {
			call(s.cancel)
		}
	}()
	if rec.Err != "" {
		return
	}
	var checks []seqCheck
	modelled := true
	fail := func(step int, msg string) {
		firstErr(&rec, fmt.Sprintf("step %d (%s): %s", step, rec.Trace[step], msg))
	}
	// emit: a step that makes the object send an event on subscription s
	event := func(step, op int, s *seqSub, v *wg.Val, mk mark) {
		s.sent++
		n := s.sent
		arrived := s.wait(n)
		_, s2c := d.tap.since(mk)
		c := seqCheck{what: "seq-event", step: step, ty: s.act.Payload, val: v, sub: s, idx: n - 1, valid: arrived, op: op, id: s.act.ID}
		if f := find(s2c, tEvent, t.sid, s.act.ID); f != nil {
			c.data, c.seen = f.Payload, true
		}
		if !arrived {
			fail(step, "timeout: no event reached the subscriber")
		}
		checks = append(checks, c)
	}
	parts := func(a Action, v *wg.Val) []*wg.Val {
		if len(a.Params) == 1 {
			return []*wg.Val{v}
		}
		return v.L
	}
	for step := 0; step < steps && rec.Err == ""; step++ {
		// what can be done now: any update, set, signal, call; a get of a property whose value is known
		var known []Action
		for _, p := range props {
			if d.last[p.Key+t.inst] != nil {
				known = append(known, p)
			}
		}
		kind := d.rng.Intn(10)
		switch {
		case kind < 3 && len(known) > 0: // get
			a := known[d.rng.Intn(len(known))]
			want := d.last[a.Key+t.inst]
			rec.Trace = append(rec.Trace, fmt.Sprintf("Get %s, last given %s", a.Name, short(want.Canon())))
			mk := d.tap.mark()
			var out []reflect.Value
			c := seqCheck{what: "seq-get", step: step, ty: a.Payload, val: want, op: 3, id: a.ID}
			if !call(func() { out = method(t.proxy, a.Proxy).Call(nil) }) {
				fail(step, "timeout: getter did not return")
			} else if e := errOf(out[1]); e != "" {
				fail(step, "get-error: "+e)
			} else {
				c.held, c.valid = out[0], true
			}
			_, s2c := d.tap.since(mk)
			if f := find(s2c, tReply, t.sid, 5); f != nil {
				c.data, c.seen = stripPrefix(f.Payload, lenPrefixed(a.Payload.Sig())), true
			}
			checks = append(checks, c)
		case kind < 5 && len(props) > 0: // update through the helper
			a := props[d.rng.Intn(len(props))]
			v := d.drawProp(a.Payload, maxLen)
			rec.Trace = append(rec.Trace, fmt.Sprintf("%s(%s)", a.Helper, short(v.Canon())))
			h := method(helper, a.Helper)
			args := fillArgs(h, parts(a, v), nil)
			mk := d.tap.mark()
			var out []reflect.Value
			if !call(func() { out = h.Call(args) }) {
				fail(step, "timeout: update helper did not return")
				break
			}
			if e := errOf(out[0]); e != "" {
				delete(d.last, a.Key+t.inst)
				fail(step, "update-error: "+e)
				break
			}
			d.last[a.Key+t.inst] = v
			d.takeGot(a.Key+t.inst, a.Params)
			event(step, 0, subs[a.Key], v, mk)
		case kind < 7 && len(props) > 0: // set through the proxy
			a := props[d.rng.Intn(len(props))]
			v := d.drawProp(a.Payload, maxLen)
			rec.Trace = append(rec.Trace, fmt.Sprintf("%s(%s)", a.Set, short(v.Canon())))
			set := method(t.proxy, a.Set)
			args := fillArgs(set, []*wg.Val{v}, nil)
			mk := d.tap.mark()
			var out []reflect.Value
			if !call(func() { out = set.Call(args) }) {
				fail(step, "timeout: setter did not return")
				break
			}
			if e := errOf(out[0]); e != "" {
				delete(d.last, a.Key+t.inst)
				fail(step, "set-error: "+e)
				break
			}
			d.last[a.Key+t.inst] = v
			seen := d.takeGot(a.Key+t.inst, a.Params)
			if len(a.Params) != 1 && len(seen) == len(a.Params) {
				seen = []*wg.Val{payloadVal(seen)}
			}
			l := leg("seq-set", 2, []*wg.Ty{a.Payload}, []*wg.Val{v}, nil, false, seen)
			l.Step = step
			rec.Legs = append(rec.Legs, l)
			event(step, 1, subs[a.Key], v, mk)
		case kind < 9 && len(sigs) > 0: // signal
			a := sigs[d.rng.Intn(len(sigs))]
			vals, objs := d.genVals(a.Params, maxLen, t.svc)
			v := payloadVal(vals)
			rec.Trace = append(rec.Trace, fmt.Sprintf("%s(%s)", a.Helper, short(v.Canon())))
			h := method(helper, a.Helper)
			args := fillArgs(h, vals, objs)
			mk := d.tap.mark()
			var out []reflect.Value
			if !call(func() { out = h.Call(args) }) {
				fail(step, "timeout: signal helper did not return")
				break
			}
			if e := errOf(out[0]); e != "" {
				fail(step, "emit-error: "+e)
				break
			}
			event(step, 2, subs[a.Key], v, mk)
		case len(fns) > 0: // a method call in between
			a := fns[d.rng.Intn(len(fns))]
			rec.Trace = append(rec.Trace, "call "+a.Proxy)
			var sub Record
			d.method(&sub, a, t, maxLen)
			for _, l := range sub.Legs {
				l.What, l.Step = "seq-"+l.What, step
				rec.Legs = append(rec.Legs, l)
			}
			if sub.Err != "" {
				fail(step, sub.Err)
			}
		default:
			rec.Trace = append(rec.Trace, "-")
		}
	}
	// everything the proxy handed out is read now, after the last step
	written := map[uint32]bool{}
	for _, c := range checks {
		var got []*wg.Val
		if c.valid {
			if c.sub != nil {
				c.sub.mu.Lock()
				if c.idx < len(c.sub.got) {
					got = []*wg.Val{readAny(c.sub.got[c.idx], c.ty)}
				}
				c.sub.mu.Unlock()
			} else {
				got = []*wg.Val{Read(c.held, c.ty)}
			}
		}
		l := leg(c.what, 2, []*wg.Ty{c.ty}, []*wg.Val{c.val}, c.data, c.seen, got)
		l.Step = c.step
		rec.Legs = append(rec.Legs, l)
		at := len(rec.Legs) - 1
		// the model (GenSeq.v) starts from an empty store: the read of a property the sequence
		// has not written yet (its value comes from the first pass) is checked by the oracle
		// only; leaving it out does not change the store
		if c.op == 0 || c.op == 1 {
			written[c.id] = true
		}
		if c.op == 3 && !written[c.id] {
			continue
		}
		if !c.seen || l.NoModel || len(l.Vals) != 1 {
			modelled = false
			continue
		}
		st := SeqStep{Op: c.op, ID: c.id, Ty: c.ty.Coq(), Bytes: l.Bytes, Val: "VTup []"}
		if c.op != 3 {
			st.Val = l.Vals[0]
		}
		rec.Seq = append(rec.Seq, st)
		rec.Legs[at].InSeq = true
	}
	if !modelled || rec.Err != "" {
		rec.Seq = nil
		for i := range rec.Legs {
			rec.Legs[i].InSeq = false
		}
	}
}
