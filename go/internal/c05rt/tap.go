package c05rt

import (
	"encoding/binary"
	"io"
	gonet "net"
	"sync"

	"github.com/lugu/qiloop/bus/net"
)

// listener hands harness-made streams to the server's accept loop.
type listener struct{ ch chan net.Stream }

func (l *listener) Accept() (net.Stream, error) {
	s, ok := <-l.ch
	if !ok {
		return nil, io.EOF
	}
	return s, nil
}
func (l *listener) Close() error { return nil }

// tap is the client's end of the connection: every byte the proxy side writes (c2s) and
// every byte it reads (s2c) is recorded.
type tap struct {
	gonet.Conn
	mu       sync.Mutex
	c2s, s2c []byte
}

func (t *tap) Write(b []byte) (int, error) {
	t.mu.Lock()
	t.c2s = append(t.c2s, b...)
	t.mu.Unlock()
	return t.Conn.Write(b)
}
func (t *tap) Read(b []byte) (int, error) {
	n, err := t.Conn.Read(b)
	t.mu.Lock()
	t.s2c = append(t.s2c, b[:n]...)
	t.mu.Unlock()
	return n, err
}

// Frame is one message as seen on the stream (28-byte header: magic, id, size, version,
// type, flags, service, object, action; then size bytes).
type Frame struct {
	ID, Service, Object, Action uint32
	Type                        uint8
	Payload                     []byte
}

const (
	tCall  = 1
	tReply = 2
	tError = 3
	tEvent = 5
)

func parseFrames(b []byte) []Frame {
	var fs []Frame
	for len(b) >= 28 {
		size := int(binary.LittleEndian.Uint32(b[8:12]))
		if len(b) < 28+size {
			break
		}
		fs = append(fs, Frame{ID: binary.LittleEndian.Uint32(b[4:8]), Type: b[14],
			Service: binary.LittleEndian.Uint32(b[16:20]), Object: binary.LittleEndian.Uint32(b[20:24]),
			Action: binary.LittleEndian.Uint32(b[24:28]), Payload: append([]byte(nil), b[28:28+size]...)})
		b = b[28+size:]
	}
	return fs
}

// mark / since: the frames of each direction that appeared after a mark.
type mark struct{ c2s, s2c int }

func (t *tap) mark() mark {
	t.mu.Lock()
	defer t.mu.Unlock()
	return mark{len(parseFrames(t.c2s)), len(parseFrames(t.s2c))}
}
func (t *tap) since(m mark) (c2s, s2c []Frame) {
	t.mu.Lock()
	defer t.mu.Unlock()
	a, b := parseFrames(t.c2s), parseFrames(t.s2c)
	return a[m.c2s:], b[m.s2c:]
}

func find(fs []Frame, typ uint8, service, action uint32) *Frame {
	for i := range fs {
		if fs[i].Type == typ && fs[i].Service == service && fs[i].Action == action {
			return &fs[i]
		}
	}
	return nil
}
