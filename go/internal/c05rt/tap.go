package c05rt

import (
	"encoding/binary"
	"io"
	gonet "net"
	"sync"

	"github.com/lugu/qiloop/bus/net"
)

// listener hands harness-made streams to the server's accept loop.
type listener struct{ ch chan net.Stream }

func (l *listener) Accept() (net.Stream, error) {
	s, ok := <-l.ch
	if !ok {
		return nil, io.EOF
	}
	return s, nil
}
func (l *listener) Close() error { return nil }

// tap is the client's end of the connection: every byte the proxy side writes (c2s) and
// every byte it reads (s2c) is cut into frames as it passes (each byte is looked at once,
// whatever the length of the run).
type tap struct {
	gonet.Conn
	mu       sync.Mutex
	c2s, s2c stream
}

// stream: the frames completed so far and the bytes of the frame still arriving.
type stream struct {
	pend   []byte
	frames []Frame
}

func (s *stream) feed(b []byte) {
	s.pend = append(s.pend, b...)
	for len(s.pend) >= 28 {
		size := int(binary.LittleEndian.Uint32(s.pend[8:12]))
		if len(s.pend) < 28+size {
			return
		}
		p := s.pend
		s.frames = append(s.frames, Frame{ID: binary.LittleEndian.Uint32(p[4:8]), Type: p[14],
			Service: binary.LittleEndian.Uint32(p[16:20]), Object: binary.LittleEndian.Uint32(p[20:24]),
			Action: binary.LittleEndian.Uint32(p[24:28]), Payload: append([]byte(nil), p[28:28+size]...)})
		s.pend = append([]byte(nil), p[28+size:]...)
	}
}

func (t *tap) Write(b []byte) (int, error) {
	t.mu.Lock()
	t.c2s.feed(b)
	t.mu.Unlock()
	return t.Conn.Write(b)
}
func (t *tap) Read(b []byte) (int, error) {
	n, err := t.Conn.Read(b)
	t.mu.Lock()
	t.s2c.feed(b[:n])
	t.mu.Unlock()
	return n, err
}

// Frame is one message as seen on the stream (28-byte header: magic, id, size, version,
// type, flags, service, object, action; then size bytes).
type Frame struct {
	ID, Service, Object, Action uint32
	Type                        uint8
	Payload                     []byte
}

const (
	tCall  = 1
	tReply = 2
	tError = 3
	tEvent = 5
)

// mark / since: the frames of each direction that appeared after a mark.
type mark struct{ c2s, s2c int }

func (t *tap) mark() mark {
	t.mu.Lock()
	defer t.mu.Unlock()
	return mark{len(t.c2s.frames), len(t.s2c.frames)}
}
func (t *tap) since(m mark) (c2s, s2c []Frame) {
	t.mu.Lock()
	defer t.mu.Unlock()
	a, b := t.c2s.frames, t.s2c.frames
	return a[m.c2s:len(a):len(a)], b[m.s2c:len(b):len(b)]
}

func find(fs []Frame, typ uint8, service, action uint32) *Frame {
	for i := range fs {
		if fs[i].Type == typ && fs[i].Service == service && fs[i].Action == action {
			return &fs[i]
		}
	}
	return nil
}
