// Package c05rt is the run-time half of the C05 harness.  It is copied (together with hx and
// wg) into the scratch module in which generated packages are built, and linked into every
// generated driver: in-process server, tapped client connection, type-directed values,
// conversion between data trees and the generated Go types, one JSON record per action.
package c05rt

import (
	"bytes"
	"encoding/binary"
	"fmt"
	"math"
	"reflect"
	"sort"

	"github.com/lugu/qiloop/type/value"
	"qv/internal/wg"
)

// ---------- signatures of dynamic values ----------

type sigParser struct {
	s string
	i int
}

func (p *sigParser) peek() byte {
	if p.i < len(p.s) {
		return p.s[p.i]
	}
	return 0
}
func (p *sigParser) ident(stop string) string {
	j := p.i
	for p.i < len(p.s) && !bytes.ContainsRune([]byte(stop), rune(p.s[p.i])) {
		p.i++
	}
	return p.s[j:p.i]
}
func (p *sigParser) ty() *wg.Ty {
	c := p.peek()
	p.i++
	switch c {
	case '[':
		e := p.ty()
		p.i++ // ]
		return wg.List(e)
	case '{':
		k := p.ty()
		v := p.ty()
		p.i++ // }
		return wg.Map(k, v)
	case '(':
		var mem []*wg.Ty
		for p.peek() != ')' && p.peek() != 0 {
			mem = append(mem, p.ty())
		}
		p.i++ // )
		if p.peek() != '<' {
			return wg.Tuple(mem...)
		}
		p.i++
		name := p.ident(",>")
		var fields []string
		for p.peek() == ',' {
			p.i++
			fields = append(fields, p.ident(",>"))
		}
		p.i++ // >
		return wg.Struct(name, fields, mem...)
	}
	return wg.Scalar(string(c))
}

// ParseSig reads a signature as printed by wg.Ty.Sig (no template names inside dynamic values).
func ParseSig(s string) (t *wg.Ty, ok bool) {
	defer func() {
		if recover() != nil {
			t, ok = nil, false
		}
	}()
	p := &sigParser{s: s}
	t = p.ty()
	return t, p.i == len(s) && t.Sig() == s
}

// ---------- the harness's own decoder (with dynamic values) ----------

type dec struct{ b []byte }

func (d *dec) take(n int) []byte {
	if n < 0 || len(d.b) < n {
		panic("short")
	}
	x := d.b[:n]
	d.b = d.b[n:]
	return x
}
func (d *dec) u32() uint32 { return binary.LittleEndian.Uint32(d.take(4)) }
func (d *dec) val(t *wg.Ty) *wg.Val {
	switch t.K {
	case wg.KScalar:
		switch t.S {
		case "b":
			return &wg.Val{K: wg.VBool, B: d.take(1)[0] != 0}
		case "s", "r":
			// r: raw data inside a dynamic value (length, bytes)
			return &wg.Val{K: wg.VStr, S: append([]byte(nil), d.take(int(d.u32()))...)}
		case "v":
			return &wg.Val{K: wg.VTup}
		case "m":
			sig := string(d.take(int(d.u32())))
			dt, ok := ParseSig(sig)
			if !ok {
				panic("sig")
			}
			return &wg.Val{K: wg.VDyn, T: dt, V: d.val(dt)}
		}
		w := map[string]int{"c": 1, "C": 1, "w": 2, "W": 2, "i": 4, "I": 4, "f": 4, "l": 8, "L": 8, "d": 8}[t.S]
		if w == 0 {
			panic("scalar")
		}
		var tmp [8]byte
		copy(tmp[:], d.take(w))
		return &wg.Val{K: wg.VNum, W: w, Bits: binary.LittleEndian.Uint64(tmp[:])}
	case wg.KList:
		v := &wg.Val{K: wg.VList}
		for n := d.u32(); n > 0; n-- {
			v.L = append(v.L, d.val(t.Elem))
		}
		return v
	case wg.KMap:
		v := &wg.Val{K: wg.VMap}
		for n := d.u32(); n > 0; n-- {
			k := d.val(t.Key)
			v.KV = append(v.KV, [2]*wg.Val{k, d.val(t.Val)})
		}
		return v
	}
	v := &wg.Val{K: wg.VTup}
	for _, m := range t.Mem {
		v.L = append(v.L, d.val(m))
	}
	return v
}

// Decode reads the documented encoding of a value of type t; ok=false if data is not one.
func Decode(t *wg.Ty, data []byte) (v *wg.Val, rest []byte, ok bool) {
	defer func() {
		if recover() != nil {
			v, rest, ok = nil, nil, false
		}
	}()
	d := &dec{b: data}
	v = d.val(t)
	return v, d.b, true
}

// DecodeSeq reads one value per type.
func DecodeSeq(ts []*wg.Ty, data []byte) (vs []*wg.Val, ok bool) {
	for _, t := range ts {
		v, rest, ok := Decode(t, data)
		if !ok {
			return nil, false
		}
		vs, data = append(vs, v), rest
	}
	return vs, len(data) == 0
}

// ---------- data tree <-> Go value of a generated type ----------

var valueType = reflect.TypeOf((*value.Value)(nil)).Elem()

// Fill stores v into dst (a settable value of a generated Go type).
func Fill(dst reflect.Value, v *wg.Val) {
	switch dst.Kind() {
	case reflect.Interface:
		if v.K == wg.VDyn && dst.Type() == valueType {
			dst.Set(reflect.ValueOf(mkValue(v)))
		}
	case reflect.Bool:
		dst.SetBool(v.B)
	case reflect.String:
		dst.SetString(string(v.S))
	case reflect.Int8, reflect.Int16, reflect.Int32, reflect.Int64, reflect.Int:
		sh := uint(64 - 8*v.W)
		dst.SetInt(int64(v.Bits<<sh) >> sh)
	case reflect.Uint8, reflect.Uint16, reflect.Uint32, reflect.Uint64, reflect.Uint:
		dst.SetUint(v.Bits)
	case reflect.Float32:
		dst.SetFloat(float64(math.Float32frombits(uint32(v.Bits))))
	case reflect.Float64:
		dst.SetFloat(math.Float64frombits(v.Bits))
	case reflect.Slice:
		s := reflect.MakeSlice(dst.Type(), len(v.L), len(v.L))
		for i, x := range v.L {
			Fill(s.Index(i), x)
		}
		dst.Set(s)
	case reflect.Map:
		m := reflect.MakeMap(dst.Type())
		for _, kv := range v.KV {
			k := reflect.New(dst.Type().Key()).Elem()
			Fill(k, kv[0])
			e := reflect.New(dst.Type().Elem()).Elem()
			Fill(e, kv[1])
			m.SetMapIndex(k, e)
		}
		dst.Set(m)
	case reflect.Struct:
		for i := 0; i < dst.NumField() && i < len(v.L); i++ {
			Fill(dst.Field(i), v.L[i])
		}
	}
}

// Read converts a Go value of a generated type back into a data tree following t; shapes
// that do not match t give a tree that compares unequal to every well-typed one.
func Read(rv reflect.Value, t *wg.Ty) (out *wg.Val) {
	defer func() {
		if e := recover(); e != nil {
			out = &wg.Val{K: wg.VStr, S: []byte(fmt.Sprintf("<unreadable: %v>", e))}
		}
	}()
	return read(rv, t)
}
func read(rv reflect.Value, t *wg.Ty) *wg.Val {
	if t.K == wg.KScalar && t.S == "m" {
		// a dynamic value: an interface-typed field, or the concrete value taken out of one
		if !rv.IsValid() || (rv.Kind() == reflect.Interface && rv.IsNil()) {
			return &wg.Val{K: wg.VStr, S: []byte("<nil value>")}
		}
		dv, isValue := rv.Interface().(value.Value)
		if !isValue {
			return &wg.Val{K: wg.VStr, S: []byte("<not a value.Value>")}
		}
		var b bytes.Buffer
		if err := dv.Write(&b); err != nil {
			return &wg.Val{K: wg.VStr, S: []byte("<unwritable value>")}
		}
		v, rest, ok := Decode(wg.Scalar("m"), b.Bytes())
		if !ok || len(rest) != 0 {
			return &wg.Val{K: wg.VStr, S: []byte(fmt.Sprintf("<value %x>", b.Bytes()))}
		}
		return v
	}
	switch rv.Kind() {
	case reflect.Bool:
		return &wg.Val{K: wg.VBool, B: rv.Bool()}
	case reflect.String:
		return &wg.Val{K: wg.VStr, S: []byte(rv.String())}
	case reflect.Int8, reflect.Int16, reflect.Int32, reflect.Int64:
		w := int(rv.Type().Size())
		m := uint64(math.MaxUint64)
		if w < 8 {
			m = (uint64(1) << uint(8*w)) - 1
		}
		return &wg.Val{K: wg.VNum, W: w, Bits: uint64(rv.Int()) & m}
	case reflect.Uint8, reflect.Uint16, reflect.Uint32, reflect.Uint64:
		return &wg.Val{K: wg.VNum, W: int(rv.Type().Size()), Bits: rv.Uint()}
	case reflect.Float32:
		return &wg.Val{K: wg.VNum, W: 4, Bits: uint64(math.Float32bits(float32(rv.Float())))}
	case reflect.Float64:
		return &wg.Val{K: wg.VNum, W: 8, Bits: math.Float64bits(rv.Float())}
	case reflect.Slice:
		v := &wg.Val{K: wg.VList}
		for i := 0; i < rv.Len(); i++ {
			v.L = append(v.L, read(rv.Index(i), t.Elem))
		}
		return v
	case reflect.Map:
		v := &wg.Val{K: wg.VMap}
		for _, k := range rv.MapKeys() {
			v.KV = append(v.KV, [2]*wg.Val{read(k, t.Key), read(rv.MapIndex(k), t.Val)})
		}
		sort.Slice(v.KV, func(i, j int) bool { return v.KV[i][0].Canon() < v.KV[j][0].Canon() })
		return v
	case reflect.Struct:
		v := &wg.Val{K: wg.VTup}
		for i := 0; i < rv.NumField(); i++ {
			v.L = append(v.L, read(rv.Field(i), t.Mem[i]))
		}
		return v
	}
	return &wg.Val{K: wg.VStr, S: []byte("<kind " + rv.Kind().String() + ">")}
}
