package c05rt

import (
	"bytes"
	"encoding/binary"
	"fmt"
	"reflect"
	"time"

	"github.com/lugu/qiloop/bus"
	"qv/internal/wg"
)

// genVals draws one value per type.  An object reference is a fresh object of that interface
// added to svc; its proxy is returned in objs (same index), its identity stands in vals.
func (d *Driver) genVals(tys []*wg.Ty, maxLen int, svc bus.Service) (vals []*wg.Val, objs []reflect.Value) {
	vals, objs = make([]*wg.Val, len(tys)), make([]reflect.Value, len(tys))
	for i, t := range tys {
		if isObj(t) {
			p, _ := d.newObject(t.Name, svc)
			vals[i], objs[i] = objVal(p), reflect.ValueOf(p)
			continue
		}
		vals[i] = d.draw(t, maxLen)
	}
	return vals, objs
}

// fillArgs builds the Go arguments of a method value from data trees (objs, where valid,
// are passed as they are).
func fillArgs(m reflect.Value, vals []*wg.Val, objs []reflect.Value) []reflect.Value {
	if m.Type().NumIn() != len(vals) {
		panic(fmt.Sprintf("generated method takes %d arguments, the IDL declares %d", m.Type().NumIn(), len(vals)))
	}
	args := make([]reflect.Value, len(vals))
	for i, v := range vals {
		if i < len(objs) && objs[i].IsValid() {
			args[i] = objs[i]
			continue
		}
		args[i] = reflect.New(m.Type().In(i)).Elem()
		Fill(args[i], v)
	}
	return args
}

// readAny: a Go value received by the other side as a data tree (objects by identity).
func readAny(rv reflect.Value, t *wg.Ty) *wg.Val {
	if isObj(t) {
		if !rv.IsValid() || !rv.CanInterface() {
			return objVal(nil)
		}
		return objVal(rv.Interface())
	}
	return Read(rv, t)
}

// unmodelled: object references are compared by identity only; no correspondence case.
func unmodelled(l Leg, tys ...*wg.Ty) Leg {
	for _, t := range tys {
		if isObj(t) {
			l.Seen = false
		}
	}
	return l
}

func (d *Driver) takeGot(key string, tys []*wg.Ty) []*wg.Val {
	d.mu.Lock()
	g := d.got[key]
	delete(d.got, key)
	d.mu.Unlock()
	var out []*wg.Val
	for i, x := range g {
		if i < len(tys) {
			out = append(out, readAny(reflect.ValueOf(x), tys[i]))
		}
	}
	return out
}

func method(obj interface{}, name string) reflect.Value {
	m := reflect.ValueOf(obj).MethodByName(name)
	if !m.IsValid() {
		panic("no generated method " + name)
	}
	return m
}

func (d *Driver) method(rec *Record, a Action, t target, maxLen int) {
	key := a.Key + t.inst
	vals, objs := d.genVals(a.Params, maxLen, t.svc)
	var rv *wg.Val
	var retObj interface{}
	var retInst string
	if isObj(a.Ret) {
		retObj, retInst = d.newObject(a.Ret.Name, t.svc)
		rv = objVal(retObj)
		d.mu.Lock()
		d.retObjs[key] = reflect.ValueOf(retObj)
		d.mu.Unlock()
	} else if a.Ret != nil {
		rv = d.draw(a.Ret, maxLen)
		d.mu.Lock()
		d.rets[key] = rv
		d.mu.Unlock()
	}
	m := method(t.proxy, a.Proxy)
	args := fillArgs(m, vals, objs)
	mk := d.tap.mark()
	var out []reflect.Value
	if !call(func() { out = m.Call(args) }) {
		rec.Err = "timeout: the call did not return"
	} else if e := errOf(out[len(out)-1]); e != "" {
		rec.Err = "call-error: " + e
	}
	c2s, s2c := d.tap.since(mk)
	var sent, reply []byte
	fs, fr := find(c2s, tCall, t.sid, a.ID), find(s2c, tReply, t.sid, a.ID)
	if fs != nil {
		sent = fs.Payload
	}
	if fr != nil {
		reply = fr.Payload
	}
	rec.Legs = append(rec.Legs, unmodelled(leg("args", 0, a.Params, vals, sent, fs != nil, d.takeGot(key, a.Params)), a.Params...))
	if a.Ret != nil {
		var got []*wg.Val
		if rec.Err == "" && len(out) == 2 {
			got = []*wg.Val{readAny(out[0], a.Ret)}
		}
		rec.Legs = append(rec.Legs, unmodelled(leg("result", 1, []*wg.Ty{a.Ret}, []*wg.Val{rv}, reply, fr != nil, got), a.Ret))
		if isObj(a.Ret) && rec.Err == "" && len(got) == 1 && got[0].Canon() == rv.Canon() {
			// the caller holds a proxy to the object the implementor returned: exercise it
			for i := range d.ifaces {
				if d.ifaces[i].Name == a.Ret.Name {
					sid, _, _ := ids(out[0].Interface())
					d.pending = append(d.pending, target{it: &d.ifaces[i], proxy: out[0].Interface(), svc: t.svc, sid: sid, inst: retInst, via: "obj"})
				}
			}
		}
	}
}

// payloadVal: one parameter -> the value itself; otherwise the structure of all of them.
func payloadVal(vals []*wg.Val) *wg.Val {
	if len(vals) == 1 {
		return vals[0]
	}
	return &wg.Val{K: wg.VTup, L: vals}
}

// recvEvent waits for one value on the channel returned by a generated Subscribe method.
func recvEvent(ch reflect.Value, t *wg.Ty) []*wg.Val {
	timeout := reflect.ValueOf(time.After(stepTimeout))
	i, v, ok := reflect.Select([]reflect.SelectCase{{Dir: reflect.SelectRecv, Chan: ch}, {Dir: reflect.SelectRecv, Chan: timeout}})
	if i != 0 || !ok {
		return nil
	}
	return []*wg.Val{readAny(v, t)}
}

func (d *Driver) subscribe(rec *Record, proxy interface{}, name string) (cancel func(), ch reflect.Value, ok bool) {
	var out []reflect.Value
	if !call(func() { out = method(proxy, name).Call(nil) }) {
		rec.Err = "timeout: subscribe did not return"
		return nil, ch, false
	}
	if e := errOf(out[2]); e != "" {
		rec.Err = "subscribe-error: " + e
		return nil, ch, false
	}
	return out[0].Interface().(func()), out[1], true
}

func (d *Driver) signal(rec *Record, a Action, t target, helper interface{}, maxLen int) {
	sid, proxy := t.sid, t.proxy
	vals, objs := d.genVals(a.Params, maxLen, t.svc)
	cancel, ch, ok := d.subscribe(rec, proxy, a.Proxy)
	if !ok {
		return
	}
	defer call(cancel)
	h := method(helper, a.Helper)
	args := fillArgs(h, vals, objs)
	mk := d.tap.mark()
	var out []reflect.Value
	if !call(func() { out = h.Call(args) }) {
		rec.Err = "timeout: signal helper did not return"
		return
	}
	if e := errOf(out[0]); e != "" {
		rec.Err = "emit-error: " + e
	}
	got := recvEvent(ch, a.Payload)
	_, s2c := d.tap.since(mk)
	var data []byte
	f := find(s2c, tEvent, sid, a.ID)
	if f != nil {
		data = f.Payload
	}
	if got == nil && rec.Err == "" {
		rec.Err = "timeout: no event reached the subscriber"
	}
	rec.Legs = append(rec.Legs, unmodelled(leg("event", 2, []*wg.Ty{a.Payload}, []*wg.Val{payloadVal(vals)}, data, f != nil, got), a.Payload))
}

// firstErr keeps the first thing that went wrong in an action.
func firstErr(rec *Record, msg string) {
	if rec.Err == "" {
		rec.Err = msg
	}
}

func lenPrefixed(s string) []byte {
	b := make([]byte, 4, 4+len(s))
	binary.LittleEndian.PutUint32(b, uint32(len(s)))
	return append(b, s...)
}

// stripPrefix removes pre from data; without it the whole payload is returned (and will not
// compare equal to the encoding of the value).
func stripPrefix(data, pre []byte) []byte {
	if bytes.HasPrefix(data, pre) {
		return data[len(pre):]
	}
	return data
}

func (d *Driver) property(rec *Record, a Action, tg target, helper interface{}, maxLen int) {
	sid, proxy := tg.sid, tg.proxy
	akey := a.Key + tg.inst
	t := a.Payload
	// with one parameter the payload is the parameter; otherwise a structure of all of them,
	// which the change callback and the update helper take apart
	parts := func(v *wg.Val) []*wg.Val {
		if len(a.Params) == 1 {
			return []*wg.Val{v}
		}
		return v.L
	}
	sigPre := lenPrefixed(t.Sig())
	setPre := append(append(lenPrefixed("s"), lenPrefixed(a.Name)...), sigPre...)
	cancel, ch, ok := d.subscribe(rec, proxy, a.Sub)
	if !ok {
		return
	}
	defer call(cancel)
	get := func(what string, v *wg.Val) {
		mk := d.tap.mark()
		var out []reflect.Value
		var got []*wg.Val
		if !call(func() { out = method(proxy, a.Proxy).Call(nil) }) {
			firstErr(rec, "timeout: getter did not return")
		} else if e := errOf(out[1]); e != "" {
			firstErr(rec, "get-error: "+e)
		} else {
			got = []*wg.Val{Read(out[0], t)}
		}
		_, s2c := d.tap.since(mk)
		var data []byte
		f := find(s2c, tReply, sid, 5)
		if f != nil {
			data = stripPrefix(f.Payload, sigPre)
		}
		rec.Legs = append(rec.Legs, leg(what, 2, []*wg.Ty{t}, []*wg.Val{v}, data, f != nil, got))
	}
	// 1. set through the proxy: the implementor's change callback sees the value, subscribers
	//    get it, the getter returns it
	v1 := d.drawProp(t, maxLen)
	set := method(proxy, a.Set)
	mk := d.tap.mark()
	var out []reflect.Value
	setArgs := fillArgs(set, []*wg.Val{v1}, nil)
	if !call(func() { out = set.Call(setArgs) }) {
		rec.Err = "timeout: setter did not return"
		return
	}
	if e := errOf(out[0]); e != "" {
		rec.Err = "set-error: " + e
		delete(d.last, akey)
	} else {
		d.last[akey] = v1
	}
	got := recvEvent(ch, t)
	c2s, s2c := d.tap.since(mk)
	var data, ev []byte
	fs, fe := find(c2s, tCall, sid, 6), find(s2c, tEvent, sid, a.ID)
	if fs != nil {
		data = stripPrefix(fs.Payload, setPre)
	}
	if fe != nil {
		ev = fe.Payload
	}
	seen := d.takeGot(akey, a.Params)
	if len(a.Params) != 1 && len(seen) == len(a.Params) {
		seen = []*wg.Val{payloadVal(seen)}
	}
	rec.Legs = append(rec.Legs, leg("set", 2, []*wg.Ty{t}, []*wg.Val{v1}, data, fs != nil, seen))
	rec.Legs = append(rec.Legs, leg("set-event", 2, []*wg.Ty{t}, []*wg.Val{v1}, ev, fe != nil, got))
	get("get-after-set", v1)
	// 2. update through the generated helper
	v2 := d.drawProp(t, maxLen)
	h := method(helper, a.Helper)
	mk = d.tap.mark()
	updArgs := fillArgs(h, parts(v2), nil)
	if !call(func() { out = h.Call(updArgs) }) {
		rec.Err = "timeout: update helper did not return"
		return
	}
	if e := errOf(out[0]); e != "" {
		firstErr(rec, "update-error: "+e)
		delete(d.last, akey)
	} else {
		d.last[akey] = v2
	}
	got = recvEvent(ch, t)
	_, s2c = d.tap.since(mk)
	ev = nil
	if fe = find(s2c, tEvent, sid, a.ID); fe != nil {
		ev = fe.Payload
	}
	rec.Legs = append(rec.Legs, leg("update-event", 2, []*wg.Ty{t}, []*wg.Val{v2}, ev, fe != nil, got))
	get("get-after-update", v2)
}
