package c05rt

import (
	"bytes"
	"encoding/binary"
	"fmt"
	"reflect"
	"time"

	"qv/internal/wg"
)

func (d *Driver) genVals(tys []*wg.Ty, maxLen int) []*wg.Val {
	vs := make([]*wg.Val, len(tys))
	for i, t := range tys {
		vs[i] = wg.GenVal(d.rng, t, maxLen)
	}
	return vs
}

// fillArgs builds the Go arguments of a method value from data trees.
func fillArgs(m reflect.Value, vals []*wg.Val) []reflect.Value {
	if m.Type().NumIn() != len(vals) {
		panic(fmt.Sprintf("generated method takes %d arguments, the IDL declares %d", m.Type().NumIn(), len(vals)))
	}
	args := make([]reflect.Value, len(vals))
	for i, v := range vals {
		args[i] = reflect.New(m.Type().In(i)).Elem()
		Fill(args[i], v)
	}
	return args
}

func (d *Driver) takeGot(key string, tys []*wg.Ty) []*wg.Val {
	d.mu.Lock()
	g := d.got[key]
	delete(d.got, key)
	d.mu.Unlock()
	var out []*wg.Val
	for i, x := range g {
		if i < len(tys) {
			out = append(out, Read(reflect.ValueOf(x), tys[i]))
		}
	}
	return out
}

func method(obj interface{}, name string) reflect.Value {
	m := reflect.ValueOf(obj).MethodByName(name)
	if !m.IsValid() {
		panic("no generated method " + name)
	}
	return m
}

func (d *Driver) method(rec *Record, a Action, sid uint32, proxy interface{}, maxLen int) {
	vals := d.genVals(a.Params, maxLen)
	var rv *wg.Val
	if a.Ret != nil {
		rv = wg.GenVal(d.rng, a.Ret, maxLen)
		d.mu.Lock()
		d.rets[a.Key] = rv
		d.mu.Unlock()
	}
	m := method(proxy, a.Proxy)
	args := fillArgs(m, vals)
	mk := d.tap.mark()
	var out []reflect.Value
	if !call(func() { out = m.Call(args) }) {
		rec.Err = "timeout: the call did not return"
	} else if e := errOf(out[len(out)-1]); e != "" {
		rec.Err = "call-error: " + e
	}
	c2s, s2c := d.tap.since(mk)
	var sent, reply []byte
	fs, fr := find(c2s, tCall, sid, a.ID), find(s2c, tReply, sid, a.ID)
	if fs != nil {
		sent = fs.Payload
	}
	if fr != nil {
		reply = fr.Payload
	}
	rec.Legs = append(rec.Legs, leg("args", 0, a.Params, vals, sent, fs != nil, d.takeGot(a.Key, a.Params)))
	if a.Ret != nil {
		var got []*wg.Val
		if rec.Err == "" && len(out) == 2 {
			got = []*wg.Val{Read(out[0], a.Ret)}
		}
		rec.Legs = append(rec.Legs, leg("result", 1, []*wg.Ty{a.Ret}, []*wg.Val{rv}, reply, fr != nil, got))
	}
}

// payloadVal: one parameter -> the value itself; otherwise the structure of all of them.
func payloadVal(vals []*wg.Val) *wg.Val {
	if len(vals) == 1 {
		return vals[0]
	}
	return &wg.Val{K: wg.VTup, L: vals}
}

// recvEvent waits for one value on the channel returned by a generated Subscribe method.
func recvEvent(ch reflect.Value, t *wg.Ty) []*wg.Val {
	timeout := reflect.ValueOf(time.After(stepTimeout))
	i, v, ok := reflect.Select([]reflect.SelectCase{{Dir: reflect.SelectRecv, Chan: ch}, {Dir: reflect.SelectRecv, Chan: timeout}})
	if i != 0 || !ok {
		return nil
	}
	return []*wg.Val{Read(v, t)}
}

func (d *Driver) subscribe(rec *Record, proxy interface{}, name string) (cancel func(), ch reflect.Value, ok bool) {
	var out []reflect.Value
	if !call(func() { out = method(proxy, name).Call(nil) }) {
		rec.Err = "timeout: subscribe did not return"
		return nil, ch, false
	}
	if e := errOf(out[2]); e != "" {
		rec.Err = "subscribe-error: " + e
		return nil, ch, false
	}
	return out[0].Interface().(func()), out[1], true
}

func (d *Driver) signal(rec *Record, a Action, sid uint32, proxy, helper interface{}, maxLen int) {
	vals := d.genVals(a.Params, maxLen)
	cancel, ch, ok := d.subscribe(rec, proxy, a.Proxy)
	if !ok {
		return
	}
	defer call(cancel)
	h := method(helper, a.Helper)
	args := fillArgs(h, vals)
	mk := d.tap.mark()
	var out []reflect.Value
	if !call(func() { out = h.Call(args) }) {
		rec.Err = "timeout: signal helper did not return"
		return
	}
	if e := errOf(out[0]); e != "" {
		rec.Err = "emit-error: " + e
	}
	got := recvEvent(ch, a.Payload)
	_, s2c := d.tap.since(mk)
	var data []byte
	f := find(s2c, tEvent, sid, a.ID)
	if f != nil {
		data = f.Payload
	}
	if got == nil && rec.Err == "" {
		rec.Err = "timeout: no event reached the subscriber"
	}
	rec.Legs = append(rec.Legs, leg("event", 2, []*wg.Ty{a.Payload}, []*wg.Val{payloadVal(vals)}, data, f != nil, got))
}

// firstErr keeps the first thing that went wrong in an action.
func firstErr(rec *Record, msg string) {
	if rec.Err == "" {
		rec.Err = msg
	}
}

func lenPrefixed(s string) []byte {
	b := make([]byte, 4, 4+len(s))
	binary.LittleEndian.PutUint32(b, uint32(len(s)))
	return append(b, s...)
}

// stripPrefix removes pre from data; without it the whole payload is returned (and will not
// compare equal to the encoding of the value).
func stripPrefix(data, pre []byte) []byte {
	if bytes.HasPrefix(data, pre) {
		return data[len(pre):]
	}
	return data
}

func (d *Driver) property(rec *Record, a Action, sid uint32, proxy, helper interface{}, maxLen int) {
	t := a.Payload
	// with one parameter the payload is the parameter; otherwise a structure of all of them,
	// which the change callback and the update helper take apart
	parts := func(v *wg.Val) []*wg.Val {
		if len(a.Params) == 1 {
			return []*wg.Val{v}
		}
		return v.L
	}
	sigPre := lenPrefixed(t.Sig())
	setPre := append(append(lenPrefixed("s"), lenPrefixed(a.Name)...), sigPre...)
	cancel, ch, ok := d.subscribe(rec, proxy, a.Sub)
	if !ok {
		return
	}
	defer call(cancel)
	get := func(what string, v *wg.Val) {
		mk := d.tap.mark()
		var out []reflect.Value
		var got []*wg.Val
		if !call(func() { out = method(proxy, a.Proxy).Call(nil) }) {
			firstErr(rec, "timeout: getter did not return")
		} else if e := errOf(out[1]); e != "" {
			firstErr(rec, "get-error: "+e)
		} else {
			got = []*wg.Val{Read(out[0], t)}
		}
		_, s2c := d.tap.since(mk)
		var data []byte
		f := find(s2c, tReply, sid, 5)
		if f != nil {
			data = stripPrefix(f.Payload, sigPre)
		}
		rec.Legs = append(rec.Legs, leg(what, 2, []*wg.Ty{t}, []*wg.Val{v}, data, f != nil, got))
	}
	// 1. set through the proxy: the implementor's change callback sees the value, subscribers
	//    get it, the getter returns it
	v1 := wg.GenVal(d.rng, t, maxLen)
	set := method(proxy, a.Set)
	mk := d.tap.mark()
	var out []reflect.Value
	setArgs := fillArgs(set, []*wg.Val{v1})
	if !call(func() { out = set.Call(setArgs) }) {
		rec.Err = "timeout: setter did not return"
		return
	}
	if e := errOf(out[0]); e != "" {
		rec.Err = "set-error: " + e
	}
	got := recvEvent(ch, t)
	c2s, s2c := d.tap.since(mk)
	var data, ev []byte
	fs, fe := find(c2s, tCall, sid, 6), find(s2c, tEvent, sid, a.ID)
	if fs != nil {
		data = stripPrefix(fs.Payload, setPre)
	}
	if fe != nil {
		ev = fe.Payload
	}
	seen := d.takeGot(a.Key, a.Params)
	if len(a.Params) != 1 && len(seen) == len(a.Params) {
		seen = []*wg.Val{payloadVal(seen)}
	}
	rec.Legs = append(rec.Legs, leg("set", 2, []*wg.Ty{t}, []*wg.Val{v1}, data, fs != nil, seen))
	rec.Legs = append(rec.Legs, leg("set-event", 2, []*wg.Ty{t}, []*wg.Val{v1}, ev, fe != nil, got))
	get("get-after-set", v1)
	// 2. update through the generated helper
	v2 := wg.GenVal(d.rng, t, maxLen)
	h := method(helper, a.Helper)
	mk = d.tap.mark()
	updArgs := fillArgs(h, parts(v2))
	if !call(func() { out = h.Call(updArgs) }) {
		rec.Err = "timeout: update helper did not return"
		return
	}
	if e := errOf(out[0]); e != "" && rec.Err == "" {
		rec.Err = "update-error: " + e
	}
	got = recvEvent(ch, t)
	_, s2c = d.tap.since(mk)
	ev = nil
	if fe = find(s2c, tEvent, sid, a.ID); fe != nil {
		ev = fe.Payload
	}
	rec.Legs = append(rec.Legs, leg("update-event", 2, []*wg.Ty{t}, []*wg.Val{v2}, ev, fe != nil, got))
	get("get-after-update", v2)
}
