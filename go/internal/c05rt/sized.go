package c05rt

import (
	"encoding/hex"
	"fmt"

	"qv/internal/wg"
)

// ---------- containers of a chosen size ----------

// draw: the value generator of the pass that is running.
func (d *Driver) draw(t *wg.Ty, maxLen int) *wg.Val {
	if d.size >= 0 {
		return d.sized(t, d.size, true)
	}
	v := wg.GenVal(d.rng, t, maxLen)
	if hasDyn(t) {
		// dynamic values of every kind the value package offers (dyn.go)
		v = d.redyn(v, d.dynKind, 0)
	}
	return v
}

func hasContainer(t *wg.Ty) bool {
	return t != nil && t.Has(func(x *wg.Ty) bool { return x.K == wg.KList || x.K == wg.KMap })
}

// keyRoom: how many different values a map key of type t can take (capped).
func keyRoom(t *wg.Ty) int {
	if t.K != wg.KScalar {
		return 1
	}
	switch t.S {
	case "b":
		return 2
	case "c", "C":
		return 256
	case "w", "W":
		return 65536
	}
	return 1 << 30
}

// key number i of a map: keys of one map are different from each other by construction.
func (d *Driver) key(t *wg.Ty, i int, base uint64) *wg.Val {
	if t.K == wg.KScalar {
		switch t.S {
		case "b":
			return &wg.Val{K: wg.VBool, B: (uint64(i)+base)&1 == 1}
		case "s":
			return &wg.Val{K: wg.VStr, S: []byte(fmt.Sprintf("k%d", uint64(i)+base%1000))}
		case "c", "C", "w", "W", "i", "I", "l", "L":
			w := map[string]int{"c": 1, "C": 1, "w": 2, "W": 2, "i": 4, "I": 4, "l": 8, "L": 8}[t.S]
			bits := base + uint64(i)
			if w < 8 {
				bits &= (uint64(1) << uint(8*w)) - 1
			}
			return &wg.Val{K: wg.VNum, W: w, Bits: bits}
		}
	}
	return wg.GenVal(d.rng, t, 1)
}

// sized draws a value of type t in which ONE container on a path from the root holds exactly
// n entries (hot); every other container holds at most one.  Which container of the path
// gets the n entries is drawn: the outermost one, or one further down (then the containers
// above it hold a single entry).  A map whose key type has fewer than n values holds as many
// entries as there are keys.
func (d *Driver) sized(t *wg.Ty, n int, hot bool) *wg.Val {
	if !hot {
		return wg.GenVal(d.rng, t, 1)
	}
	switch t.K {
	case wg.KScalar:
		return wg.GenVal(d.rng, t, 1)
	case wg.KList:
		v := &wg.Val{K: wg.VList}
		if hasContainer(t.Elem) && d.rng.Chance(0.4) {
			v.L = append(v.L, d.sized(t.Elem, n, true))
			return v
		}
		for i := 0; i < n; i++ {
			v.L = append(v.L, d.sized(t.Elem, n, false))
		}
		return v
	case wg.KMap:
		v := &wg.Val{K: wg.VMap}
		base := d.rng.U64()
		room := keyRoom(t.Key)
		if hasContainer(t.Val) && (d.rng.Chance(0.4) || room < n) {
			v.KV = append(v.KV, [2]*wg.Val{d.key(t.Key, 0, base), d.sized(t.Val, n, true)})
			return v
		}
		for i := 0; i < n && i < room; i++ {
			v.KV = append(v.KV, [2]*wg.Val{d.key(t.Key, i, base), d.sized(t.Val, n, false)})
		}
		return v
	}
	v := &wg.Val{K: wg.VTup}
	var with []int
	for i, m := range t.Mem {
		if hasContainer(m) {
			with = append(with, i)
		}
	}
	pick := -1
	if len(with) > 0 {
		pick = with[d.rng.Intn(len(with))]
	}
	for i, m := range t.Mem {
		v.L = append(v.L, d.sized(m, n, i == pick))
	}
	return v
}

// sizedPass repeats every action that has a container somewhere in its types (and carries no
// object) with the containers sized n: arguments and result of methods, signal payloads,
// property values through setter, helper and getter.
func (d *Driver) sizedPass(t target, n int) {
	helper := func() interface{} {
		d.mu.Lock()
		defer d.mu.Unlock()
		return d.helpers[t.it.Key+t.inst]
	}()
	d.size = n
	defer func() { d.size = -1 }()
	for _, act := range t.it.Actions {
		some := hasContainer(act.Ret) || hasContainer(act.Payload)
		for _, p := range act.Params {
			some = some || hasContainer(p)
		}
		if hasObj(act) || !some {
			continue
		}
		rec := Record{Via: t.via, Iface: t.it.Name, Kind: act.Kind, Name: act.Name, ID: act.ID, Note: fmt.Sprintf("containers sized %d", n)}
		func() {
			defer func() {
				if e := recover(); e != nil {
					firstErr(&rec, fmt.Sprintf("panic: %v", e))
				}
			}()
			switch act.Kind {
			case "fn":
				d.method(&rec, act, t, 1)
			case "sig":
				d.signal(&rec, act, t, helper, 1)
			case "prop":
				d.property(&rec, act, t, helper, 1)
			}
		}()
		d.out.Encode(rec)
	}
}

// ---------- compact Gallina terms ----------

// CoqCompact prints a value as a Gallina term.  Long lists of fixed-width numbers and long
// maps from numbers to numbers are written as the helper of C05Run.v applied to their
// little-endian bytes (`nums w bytes`, `numpairs wk wv bytes`), which is what keeps a case
// with a 4096-entry container within the size a shard may have.
func CoqCompact(v *wg.Val) string {
	const long = 8
	switch v.K {
	case wg.VList:
		if len(v.L) >= long {
			w, ok := v.L[0].W, true
			for _, x := range v.L {
				ok = ok && x.K == wg.VNum && x.W == w
			}
			if ok {
				return fmt.Sprintf("VList (nums %d (unhex \"%s\"))", w, hex.EncodeToString(v.Enc()[4:]))
			}
		}
		it := make([]string, len(v.L))
		for i, x := range v.L {
			it[i] = CoqCompact(x)
		}
		return "VList [" + join(it) + "]"
	case wg.VTup:
		it := make([]string, len(v.L))
		for i, x := range v.L {
			it[i] = CoqCompact(x)
		}
		return "VTup [" + join(it) + "]"
	case wg.VMap:
		if len(v.KV) >= long {
			wk, wv, ok := v.KV[0][0].W, v.KV[0][1].W, true
			for _, kv := range v.KV {
				ok = ok && kv[0].K == wg.VNum && kv[1].K == wg.VNum && kv[0].W == wk && kv[1].W == wv
			}
			if ok {
				return fmt.Sprintf("VMap (numpairs %d %d (unhex \"%s\"))", wk, wv, hex.EncodeToString(v.Enc()[4:]))
			}
		}
		it := make([]string, len(v.KV))
		for i, kv := range v.KV {
			it[i] = "(" + CoqCompact(kv[0]) + ", " + CoqCompact(kv[1]) + ")"
		}
		return "VMap [" + join(it) + "]"
	case wg.VDyn:
		return "VDyn (" + v.T.Coq() + ") (" + CoqCompact(v.V) + ")"
	}
	return v.Coq()
}

func join(it []string) string {
	n := 0
	for _, s := range it {
		n += len(s) + 2
	}
	b := make([]byte, 0, n)
	for i, s := range it {
		if i > 0 {
			b = append(b, "; "...)
		}
		b = append(b, s...)
	}
	return string(b)
}
