package c05rt

import (
	"bytes"
	"context"
	"encoding/hex"
	"encoding/json"
	"fmt"
	"io"
	"log"
	gonet "net"
	"os"
	"reflect"
	"strconv"
	"strings"
	"sync"
	"time"

	"github.com/lugu/qiloop/bus"
	"github.com/lugu/qiloop/bus/net"
	"qv/internal/hx"
	"qv/internal/wg"
)

// Action describes one method / signal / property of a generated interface: Go names as
// found in the generated file, types as drawn by idlgen.
type Action struct {
	Kind, Name, Key string
	ID              uint32
	Proxy           string // fn: proxy method; sig: SubscribeX; prop: GetX
	Set, Sub        string // prop: SetX, SubscribeX
	Helper          string // sig: SignalX; prop: UpdateX (SignalHelper side)
	Params          []*wg.Ty
	Ret             *wg.Ty // fn; nil = no result
	Payload         *wg.Ty // sig / prop
}
type Iface struct {
	Name    string // as in the IDL
	Key     string // what the implementor passes to Helper
	Actor   bus.Actor
	Make    func(bus.Session, bus.Proxy) interface{}
	Create  func(s bus.Session, svc bus.Service, inst string) (interface{}, error) // a further object of the interface in a service
	Actions []Action
}

// Leg is one passage of values through generated code.  Kind 0: proxy -> stub arguments
// (reflection encoder, generated Unmarshal); 1: stub -> proxy result (generated Marshal,
// reflection decoder); 2: generated Marshal -> generated Unmarshal (signal, property).
type Leg struct {
	What    string   `json:"what"`
	Kind    int      `json:"kind"`
	Tys     []string `json:"tys"`  // Gallina ty terms
	Vals    []string `json:"vals"` // Gallina tval terms, map entries in the order seen on the wire
	Sigs    []string `json:"sigs"`
	Canon   string   `json:"canon"`
	Bytes   string   `json:"bytes"`    // payload observed on the tapped connection
	Doc     string   `json:"doc"`      // documented encoding of the values (same map order)
	BytesOK bool     `json:"bytes_ok"` // observed == documented
	ValueOK bool     `json:"value_ok"` // the receiving side got values equal to the ones passed
	Got     string   `json:"got"`      // canonical text of what the receiving side got
	Seen    bool     `json:"seen"`     // a frame was observed
	NoModel bool     `json:"no_model"` // too large to be written as a correspondence case
	Raw     bool     `json:"raw"`      // carries raw data (signature r), which the model has no type for: oracle only
	Step    int      `json:"step"`     // sequences: index of the step (Record.Trace) the leg belongs to
	InSeq   bool     `json:"in_seq"`   // sequences: the passage is a step of Record.Seq (compared there)
}

// SeqStep is one step of a sequence as the model sees it (GenSeq.v): op 0 update through
// the helper, 1 set through the proxy, 2 signal, 3 get.  Bytes: the event payload observed
// (0-2) or the payload of the getter's reply without its signature (3).
type SeqStep struct {
	Op    int    `json:"op"`
	ID    uint32 `json:"id"`
	Ty    string `json:"ty"`
	Val   string `json:"val"`
	Bytes string `json:"bytes"`
}
type Record struct {
	Via   string `json:"via"` // "" main object through its proxy; "ctx" through WithContext; "obj" / "obj+ctx" an object returned by a method
	Iface string `json:"iface"`
	Kind  string `json:"kind"`
	Name  string `json:"name"`
	ID    uint32 `json:"id"`
	Err   string `json:"err"`
	Legs  []Leg  `json:"legs"`
	// Note: "" for the one record per action of the first pass; otherwise what the record is an
	// addition to it ("containers sized 4096", "sequence").
	Note  string    `json:"note"`
	Trace []string  `json:"trace"` // sequences: the steps in words, in the order they were made
	Seq   []SeqStep `json:"seq"`   // sequences: the steps for the model (nil when a frame was missed)
}

type Driver struct {
	mu      sync.Mutex
	ifaces  []Iface
	helpers map[string]interface{}
	got     map[string][]interface{}
	rets    map[string]*wg.Val
	retObjs map[string]reflect.Value
	rng     *hx.Rng
	out     *json.Encoder
	tap     *tap
	session bus.Session
	objSeq  int
	pending []target           // objects returned by methods, still to be exercised
	size    int                // >= 0: containers of drawn values are sized (sized.go); -1: wg.GenVal
	last    map[string]*wg.Val // property (key + instance) -> the value it was last given
	dynKind string             // "": dynamic values of drawn kinds; otherwise all of that kind (dyn.go)
	plain   int                // > 0: drawing the members of an opaque composite
}

// target: one object of an interface reached through one proxy.
type target struct {
	it    *Iface
	proxy interface{}
	svc   bus.Service
	sid   uint32
	inst  string // instance suffix of the implementor behind it
	via   string
}

// ObjTy: the type of a reference to an object of the named interface.
func ObjTy(name string) *wg.Ty { return &wg.Ty{K: wg.KScalar, S: "o", Name: name} }
func isObj(t *wg.Ty) bool      { return t != nil && t.K == wg.KScalar && t.S == "o" && t.Name != "" }
func hasObj(a Action) bool {
	for _, t := range a.Params {
		if isObj(t) {
			return true
		}
	}
	return isObj(a.Ret) || isObj(a.Payload)
}

// ids of the object a generated proxy points at.
func ids(p interface{}) (sid, oid uint32, ok bool) {
	x, ok := p.(interface{ Proxy() bus.Proxy })
	if !ok || x == nil || reflect.ValueOf(p).IsNil() {
		return 0, 0, false
	}
	return x.Proxy().ServiceID(), x.Proxy().ObjectID(), true
}

// objVal stands for an object reference in comparisons: two references are equal when they
// name the same <service, object>.
func objVal(p interface{}) *wg.Val {
	sid, oid, ok := ids(p)
	if !ok {
		return &wg.Val{K: wg.VStr, S: []byte("<no object>")}
	}
	return &wg.Val{K: wg.VStr, S: []byte(fmt.Sprintf("object %d/%d", sid, oid))}
}

// newObject adds a further object of the named interface to svc.
func (d *Driver) newObject(name string, svc bus.Service) (interface{}, string) {
	for i := range d.ifaces {
		if d.ifaces[i].Name == name {
			d.objSeq++
			inst := fmt.Sprintf("#%d", d.objSeq)
			var p interface{}
			var err error
			if !call(func() { p, err = d.ifaces[i].Create(d.session, svc, inst) }) || err != nil {
				panic(fmt.Sprintf("Create%s: %v", name, err))
			}
			return p, inst
		}
	}
	panic("no interface " + name)
}

func New() *Driver {
	log.SetOutput(io.Discard)
	return &Driver{helpers: map[string]interface{}{}, got: map[string][]interface{}{}, rets: map[string]*wg.Val{}, retObjs: map[string]reflect.Value{},
		size: -1, last: map[string]*wg.Val{}}
}

// ---- called by the generated implementors ----

func (d *Driver) Helper(iface string, h interface{}) {
	d.mu.Lock()
	d.helpers[iface] = h
	d.mu.Unlock()
}
func (d *Driver) Args(key string, args ...interface{}) {
	d.mu.Lock()
	d.got[key] = args
	d.mu.Unlock()
}
func (d *Driver) Ret(key string, out interface{}) {
	d.mu.Lock()
	v, o := d.rets[key], d.retObjs[key]
	d.mu.Unlock()
	if o.IsValid() {
		reflect.ValueOf(out).Elem().Set(o)
	} else if v != nil {
		Fill(reflect.ValueOf(out).Elem(), v)
	}
}

func (d *Driver) Add(it Iface) { d.ifaces = append(d.ifaces, it) }

const stepTimeout = 4 * time.Second

// call runs f under the step deadline.
func call(f func()) bool {
	done := make(chan struct{})
	go func() {
		defer close(done)
		f()
	}()
	select {
	case <-done:
		return true
	case <-time.After(stepTimeout):
		return false
	}
}

func errOf(v reflect.Value) string {
	if v.IsNil() {
		return ""
	}
	return v.Interface().(error).Error()
}

func (d *Driver) fatal(msg string) {
	d.out.Encode(Record{Kind: "fatal", Err: msg})
	os.Exit(0)
}

// Run: argv = seed maxLen [sizes [steps]].  sizes: comma-separated container sizes for additional passes
// ("" = none); steps: length of the sequence run against every object (0 = none).
func (d *Driver) Run() {
	d.out = json.NewEncoder(os.Stdout)
	seed, maxLen, steps := uint64(1), 3, 0
	var sizes []int
	if len(os.Args) > 1 {
		seed, _ = strconv.ParseUint(os.Args[1], 10, 64)
	}
	if len(os.Args) > 2 {
		maxLen, _ = strconv.Atoi(os.Args[2])
	}
	if len(os.Args) > 3 {
		for _, f := range strings.Split(os.Args[3], ",") {
			if n, err := strconv.Atoi(f); err == nil && n >= 0 {
				sizes = append(sizes, n)
			}
		}
	}
	if len(os.Args) > 4 {
		steps, _ = strconv.Atoi(os.Args[4])
	}
	dynKinds := len(os.Args) > 5 && os.Args[5] == "dyn"
	d.rng = hx.NewRng(seed)
	time.AfterFunc(40*time.Second, func() { d.fatal("driver deadline") })
	defer func() {
		if e := recover(); e != nil {
			d.fatal(fmt.Sprintf("driver panic: %v", e))
		}
	}()
	l := &listener{ch: make(chan net.Stream, 4)}
	srv, err := bus.StandAloneServer(l, bus.Yes{}, bus.PrivateNamespace())
	if err != nil {
		d.fatal("server: " + err.Error())
	}
	a, b := gonet.Pipe()
	l.ch <- net.ConnStream(b)
	d.tap = &tap{Conn: a}
	ch := bus.NewChannel(net.ConnEndPoint(d.tap), bus.ClientCap("u", "t"))
	if !call(func() { err = ch.Authenticate() }) || err != nil {
		d.fatal(fmt.Sprintf("authenticate: %v", err))
	}
	client := bus.NewClient(ch)
	d.session = srv.Session()
	for i, it := range d.ifaces {
		var svc bus.Service
		if !call(func() { svc, err = srv.NewService(fmt.Sprintf("S%d%s", i, it.Name), it.Actor) }) || err != nil {
			d.out.Encode(Record{Iface: it.Name, Kind: "service", Err: fmt.Sprintf("NewService: %v", err)})
			continue
		}
		var proxy interface{}
		ok := call(func() {
			meta, e := bus.GetMetaObject(client, svc.ServiceID(), 1)
			if err = e; e == nil {
				proxy = it.Make(d.session, bus.NewProxy(client, meta, svc.ServiceID(), 1))
			}
		})
		if !ok || err != nil {
			d.out.Encode(Record{Iface: it.Name, Kind: "service", Err: fmt.Sprintf("proxy: %v", err)})
			continue
		}
		main := target{it: &d.ifaces[i], proxy: proxy, svc: svc, sid: svc.ServiceID()}
		d.pass(main, maxLen, false)
		// many operations on the one stub / proxy pair, whatever was called in between
		d.sequence(main, maxLen, steps)
		// containers at the sizes asked for, as arguments, results and payloads
		for _, n := range sizes {
			d.sizedPass(main, n)
		}
		// every action with a dynamic value, once per kind of dynamic value
		if dynKinds {
			d.dynPass(main, maxLen)
		}
		// the same object through the proxy the generated WithContext returns
		d.viaContext(main, maxLen)
		// objects that methods of this interface returned: their own interface, directly
		// and through WithContext (object id differs from service id there)
		for len(d.pending) > 0 {
			t := d.pending[0]
			d.pending = d.pending[1:]
			d.pass(t, maxLen, true)
			d.sequence(t, maxLen, (steps+1)/2)
			d.viaContext(t, maxLen)
		}
	}
	d.out.Encode(Record{Kind: "done"})
	os.Exit(0)
}

// viaContext repeats a few actions through p.WithContext(context.Background()).
func (d *Driver) viaContext(t target, maxLen int) {
	m := reflect.ValueOf(t.proxy).MethodByName("WithContext")
	if !m.IsValid() {
		d.out.Encode(Record{Via: t.via + "+ctx", Iface: t.it.Name, Kind: "service", Err: "generated proxy has no WithContext"})
		return
	}
	var out []reflect.Value
	if !call(func() { out = m.Call([]reflect.Value{reflect.ValueOf(context.Background())}) }) || len(out) != 1 {
		d.out.Encode(Record{Via: t.via + "+ctx", Iface: t.it.Name, Kind: "service", Err: "WithContext did not return"})
		return
	}
	c := t
	c.proxy = out[0].Interface()
	c.via = strings.TrimPrefix(t.via+"+ctx", "+")
	d.pass(c, maxLen, true)
}

// pass runs the actions of the interface against one target.  short: the first method,
// signal and property that carry no object (secondary and WithContext passes).
func (d *Driver) pass(t target, maxLen int, short bool) {
	helper := func() interface{} {
		d.mu.Lock()
		defer d.mu.Unlock()
		return d.helpers[t.it.Key+t.inst]
	}()
	done := map[string]bool{}
	for _, act := range t.it.Actions {
		if short && (hasObj(act) || done[act.Kind]) {
			continue
		}
		done[act.Kind] = true
		rec := Record{Via: t.via, Iface: t.it.Name, Kind: act.Kind, Name: act.Name, ID: act.ID}
		func() {
			defer func() {
				if e := recover(); e != nil {
					firstErr(&rec, fmt.Sprintf("panic: %v", e))
				}
			}()
			switch act.Kind {
			case "fn":
				d.method(&rec, act, t, maxLen)
			case "sig":
				d.signal(&rec, act, t, helper, maxLen)
			case "prop":
				d.property(&rec, act, t, helper, maxLen)
			}
		}()
		d.out.Encode(rec)
	}
}

// leg builds the description of one passage: vals are the values passed in, data the
// payload observed (nil if none), got what the receiving side holds.
func leg(what string, kind int, tys []*wg.Ty, vals []*wg.Val, data []byte, seen bool, got []*wg.Val) Leg {
	l := Leg{What: what, Kind: kind, Seen: seen, Bytes: hex.EncodeToString(data)}
	wire := vals
	// learn the order in which map entries were written
	if dv, ok := DecodeSeq(tys, data); ok && seen {
		same := len(dv) == len(vals)
		for i := 0; same && i < len(dv); i++ {
			same = dv[i].Canon() == vals[i].Canon()
		}
		if same {
			wire = dv
		}
	}
	var doc bytes.Buffer
	l.ValueOK = len(got) == len(vals)
	terms := 0
	for i, v := range wire {
		l.Tys = append(l.Tys, tys[i].Coq())
		l.Sigs = append(l.Sigs, tys[i].Sig())
		term := CoqCompact(v)
		terms += len(term)
		l.Vals = append(l.Vals, term)
		l.Canon += vals[i].Canon() + ";"
		doc.Write(v.Enc())
		if i < len(got) {
			l.Got += got[i].Canon() + ";"
			l.ValueOK = l.ValueOK && got[i].Canon() == vals[i].Canon()
		}
	}
	l.Doc = hex.EncodeToString(doc.Bytes())
	l.BytesOK = seen && bytes.Equal(doc.Bytes(), data)
	// large passages: the record keeps what a reader needs (where the two sides differ), the
	// correspondence case is written only when its text stays small
	if terms+len(l.Bytes) > maxCaseText {
		l.NoModel, l.Vals = true, nil
	}
	for _, v := range vals {
		if hasRaw(v) {
			l.NoModel, l.Raw, l.Vals = true, true, nil
		}
	}
	if len(l.Doc) > 4096 {
		l.Doc = ""
	}
	l.Canon, l.Got = excerpt(l.Canon, l.Got)
	if l.NoModel && len(l.Bytes) > 4096 {
		l.Bytes = l.Bytes[:4096] + fmt.Sprintf("...(%d bytes)", len(data))
	}
	return l
}

// maxCaseText bounds the text of one correspondence case (Coq reads about 20k characters a second).
const maxCaseText = 52000

// excerpt shortens two long canonical texts to their beginning and the place where they differ.
func excerpt(a, b string) (string, string) {
	const keep = 600
	if len(a) <= keep && len(b) <= keep {
		return a, b
	}
	k := 0
	for k < len(a) && k < len(b) && a[k] == b[k] {
		k++
	}
	cut := func(s string) string {
		if len(s) <= keep {
			return s
		}
		out := s[:200] + fmt.Sprintf(" ...(%d characters)", len(s))
		if k < len(s) && (k < len(a) || k < len(b)) && k >= 200 {
			lo, hi := k-40, k+120
			if hi > len(s) {
				hi = len(s)
			}
			out += fmt.Sprintf(" ... differs at %d: %s", k, s[lo:hi])
		}
		return out
	}
	return cut(a), cut(b)
}
