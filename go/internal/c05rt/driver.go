package c05rt

import (
	"bytes"
	"encoding/hex"
	"encoding/json"
	"fmt"
	"io"
	"log"
	gonet "net"
	"os"
	"reflect"
	"strconv"
	"sync"
	"time"

	"github.com/lugu/qiloop/bus"
	"github.com/lugu/qiloop/bus/net"
	"qv/internal/hx"
	"qv/internal/wg"
)

// Action describes one method / signal / property of a generated interface: Go names as
// found in the generated file, types as drawn by idlgen.
type Action struct {
	Kind, Name, Key string
	ID              uint32
	Proxy           string // fn: proxy method; sig: SubscribeX; prop: GetX
	Set, Sub        string // prop: SetX, SubscribeX
	Helper          string // sig: SignalX; prop: UpdateX (SignalHelper side)
	Params          []*wg.Ty
	Ret             *wg.Ty // fn; nil = no result
	Payload         *wg.Ty // sig / prop
}
type Iface struct {
	Name    string // as in the IDL
	Key     string // what the implementor passes to Helper
	Actor   bus.Actor
	Make    func(bus.Session, bus.Proxy) interface{}
	Actions []Action
}

// Leg is one passage of values through generated code.  Kind 0: proxy -> stub arguments
// (reflection encoder, generated Unmarshal); 1: stub -> proxy result (generated Marshal,
// reflection decoder); 2: generated Marshal -> generated Unmarshal (signal, property).
type Leg struct {
	What    string   `json:"what"`
	Kind    int      `json:"kind"`
	Tys     []string `json:"tys"`  // Gallina ty terms
	Vals    []string `json:"vals"` // Gallina tval terms, map entries in the order seen on the wire
	Sigs    []string `json:"sigs"`
	Canon   string   `json:"canon"`
	Bytes   string   `json:"bytes"`    // payload observed on the tapped connection
	Doc     string   `json:"doc"`      // documented encoding of the values (same map order)
	BytesOK bool     `json:"bytes_ok"` // observed == documented
	ValueOK bool     `json:"value_ok"` // the receiving side got values equal to the ones passed
	Got     string   `json:"got"`      // canonical text of what the receiving side got
	Seen    bool     `json:"seen"`     // a frame was observed
}
type Record struct {
	Iface string `json:"iface"`
	Kind  string `json:"kind"`
	Name  string `json:"name"`
	ID    uint32 `json:"id"`
	Err   string `json:"err"`
	Legs  []Leg  `json:"legs"`
}

type Driver struct {
	mu      sync.Mutex
	ifaces  []Iface
	helpers map[string]interface{}
	got     map[string][]interface{}
	rets    map[string]*wg.Val
	rng     *hx.Rng
	out     *json.Encoder
	tap     *tap
}

func New() *Driver {
	log.SetOutput(io.Discard)
	return &Driver{helpers: map[string]interface{}{}, got: map[string][]interface{}{}, rets: map[string]*wg.Val{}}
}

// ---- called by the generated implementors ----

func (d *Driver) Helper(iface string, h interface{}) {
	d.mu.Lock()
	d.helpers[iface] = h
	d.mu.Unlock()
}
func (d *Driver) Args(key string, args ...interface{}) {
	d.mu.Lock()
	d.got[key] = args
	d.mu.Unlock()
}
func (d *Driver) Ret(key string, out interface{}) {
	d.mu.Lock()
	v := d.rets[key]
	d.mu.Unlock()
	if v != nil {
		Fill(reflect.ValueOf(out).Elem(), v)
	}
}

func (d *Driver) Add(it Iface) { d.ifaces = append(d.ifaces, it) }

const stepTimeout = 4 * time.Second

// call runs f under the step deadline.
func call(f func()) bool {
	done := make(chan struct{})
	go func() {
		defer close(done)
		f()
	}()
	select {
	case <-done:
		return true
	case <-time.After(stepTimeout):
		return false
	}
}

func errOf(v reflect.Value) string {
	if v.IsNil() {
		return ""
	}
	return v.Interface().(error).Error()
}

func (d *Driver) fatal(msg string) {
	d.out.Encode(Record{Kind: "fatal", Err: msg})
	os.Exit(0)
}

// Run: argv = seed maxLen.
func (d *Driver) Run() {
	d.out = json.NewEncoder(os.Stdout)
	seed, maxLen := uint64(1), 3
	if len(os.Args) > 1 {
		seed, _ = strconv.ParseUint(os.Args[1], 10, 64)
	}
	if len(os.Args) > 2 {
		maxLen, _ = strconv.Atoi(os.Args[2])
	}
	d.rng = hx.NewRng(seed)
	time.AfterFunc(40*time.Second, func() { d.fatal("driver deadline") })
	defer func() {
		if e := recover(); e != nil {
			d.fatal(fmt.Sprintf("driver panic: %v", e))
		}
	}()
	l := &listener{ch: make(chan net.Stream, 4)}
	srv, err := bus.StandAloneServer(l, bus.Yes{}, bus.PrivateNamespace())
	if err != nil {
		d.fatal("server: " + err.Error())
	}
	a, b := gonet.Pipe()
	l.ch <- net.ConnStream(b)
	d.tap = &tap{Conn: a}
	ch := bus.NewChannel(net.ConnEndPoint(d.tap), bus.ClientCap("u", "t"))
	if !call(func() { err = ch.Authenticate() }) || err != nil {
		d.fatal(fmt.Sprintf("authenticate: %v", err))
	}
	client := bus.NewClient(ch)
	for i, it := range d.ifaces {
		var svc bus.Service
		if !call(func() { svc, err = srv.NewService(fmt.Sprintf("S%d%s", i, it.Name), it.Actor) }) || err != nil {
			d.out.Encode(Record{Iface: it.Name, Kind: "service", Err: fmt.Sprintf("NewService: %v", err)})
			continue
		}
		var proxy interface{}
		ok := call(func() {
			meta, e := bus.GetMetaObject(client, svc.ServiceID(), 1)
			if err = e; e == nil {
				proxy = it.Make(srv.Session(), bus.NewProxy(client, meta, svc.ServiceID(), 1))
			}
		})
		if !ok || err != nil {
			d.out.Encode(Record{Iface: it.Name, Kind: "service", Err: fmt.Sprintf("proxy: %v", err)})
			continue
		}
		d.mu.Lock()
		helper := d.helpers[it.Key]
		d.mu.Unlock()
		for _, act := range it.Actions {
			rec := Record{Iface: it.Name, Kind: act.Kind, Name: act.Name, ID: act.ID}
			func() {
				defer func() {
					if e := recover(); e != nil {
						rec.Err = fmt.Sprintf("panic: %v", e)
					}
				}()
				switch act.Kind {
				case "fn":
					d.method(&rec, act, svc.ServiceID(), proxy, maxLen)
				case "sig":
					d.signal(&rec, act, svc.ServiceID(), proxy, helper, maxLen)
				case "prop":
					d.property(&rec, act, svc.ServiceID(), proxy, helper, maxLen)
				}
			}()
			d.out.Encode(rec)
		}
	}
	d.out.Encode(Record{Kind: "done"})
	os.Exit(0)
}

// leg builds the description of one passage: vals are the values passed in, data the
// payload observed (nil if none), got what the receiving side holds.
func leg(what string, kind int, tys []*wg.Ty, vals []*wg.Val, data []byte, seen bool, got []*wg.Val) Leg {
	l := Leg{What: what, Kind: kind, Seen: seen, Bytes: hex.EncodeToString(data)}
	wire := vals
	// learn the order in which map entries were written
	if dv, ok := DecodeSeq(tys, data); ok && seen {
		same := len(dv) == len(vals)
		for i := 0; same && i < len(dv); i++ {
			same = dv[i].Canon() == vals[i].Canon()
		}
		if same {
			wire = dv
		}
	}
	var doc bytes.Buffer
	l.ValueOK = len(got) == len(vals)
	for i, v := range wire {
		l.Tys = append(l.Tys, tys[i].Coq())
		l.Sigs = append(l.Sigs, tys[i].Sig())
		l.Vals = append(l.Vals, v.Coq())
		l.Canon += vals[i].Canon() + ";"
		doc.Write(v.Enc())
		if i < len(got) {
			l.Got += got[i].Canon() + ";"
			l.ValueOK = l.ValueOK && got[i].Canon() == vals[i].Canon()
		}
	}
	l.Doc = hex.EncodeToString(doc.Bytes())
	l.BytesOK = seen && bytes.Equal(doc.Bytes(), data)
	return l
}
