// Package wg: type-directed generators for signatures and data trees, the documented
// serialization written independently of the implementation, Gallina printers, and
// conversion to and from Go values through reflection.
package wg

import (
	"bytes"
	"encoding/binary"
	"encoding/hex"
	"fmt"
	"math"
	"reflect"
	"sort"
	"strings"

	"qv/internal/hx"
)

type Kind int

const (
	KScalar Kind = iota
	KList
	KMap
	KTuple
	KStruct
)

// Ty mirrors coq/theories/Sig.v ty.
type Ty struct {
	K      Kind
	S      string // scalar letter
	Elem   *Ty
	Key    *Ty
	Val    *Ty
	Mem    []*Ty
	Name   string
	Fields []string
}

var scalarCtor = map[string]string{"c": "SI8", "C": "SU8", "w": "SI16", "W": "SU16", "i": "SI32", "I": "SU32",
	"l": "SI64", "L": "SU64", "f": "SF32", "d": "SF64", "b": "SBool", "s": "SStr", "m": "SValue", "o": "SObject",
	"X": "SUnknown", "v": "SVoid"}

func Scalar(l string) *Ty { return &Ty{K: KScalar, S: l} }
func List(e *Ty) *Ty      { return &Ty{K: KList, Elem: e} }
func Map(k, v *Ty) *Ty    { return &Ty{K: KMap, Key: k, Val: v} }
func Tuple(m ...*Ty) *Ty  { return &Ty{K: KTuple, Mem: m} }
func Struct(name string, fields []string, m ...*Ty) *Ty {
	return &Ty{K: KStruct, Name: name, Fields: fields, Mem: m}
}

func (t *Ty) Sig() string {
	switch t.K {
	case KScalar:
		return t.S
	case KList:
		return "[" + t.Elem.Sig() + "]"
	case KMap:
		return "{" + t.Key.Sig() + t.Val.Sig() + "}"
	case KTuple:
		s := "("
		for _, m := range t.Mem {
			s += m.Sig()
		}
		return s + ")"
	default:
		s := "("
		for _, m := range t.Mem {
			s += m.Sig()
		}
		if len(t.Mem) == 0 {
			return "()<" + t.Name + ">"
		}
		return s + ")<" + t.Name + "," + strings.Join(t.Fields, ",") + ">"
	}
}

func (t *Ty) Coq() string {
	switch t.K {
	case KScalar:
		return "TS " + scalarCtor[t.S]
	case KList:
		return "TList (" + t.Elem.Coq() + ")"
	case KMap:
		return "TMap (" + t.Key.Coq() + ") (" + t.Val.Coq() + ")"
	case KTuple:
		it := make([]string, len(t.Mem))
		for i, m := range t.Mem {
			it[i] = t.Mem[i].Coq()
			_ = m
		}
		return "TTuple " + hx.List(it)
	default:
		it := make([]string, len(t.Mem))
		for i := range t.Mem {
			it[i] = fmt.Sprintf("(%s, %s)", hx.Str(t.Fields[i]), t.Mem[i].Coq())
		}
		return "TStruct " + hx.Str(t.Name) + " " + hx.List(it)
	}
}

func (t *Ty) Depth() int {
	d := 0
	for _, c := range t.children() {
		if x := c.Depth(); x > d {
			d = x
		}
	}
	return d + 1
}
func (t *Ty) children() []*Ty {
	switch t.K {
	case KList:
		return []*Ty{t.Elem}
	case KMap:
		return []*Ty{t.Key, t.Val}
	case KTuple, KStruct:
		return t.Mem
	}
	return nil
}

// MinWidth is a lower bound of the encoded size of any value of the type (Wire.v min_width).
func (t *Ty) MinWidth() int {
	switch t.K {
	case KScalar:
		switch t.S {
		case "o":
			return 24
		case "s", "m":
			return 4
		case "b":
			return 1
		}
		return width(t.S)
	case KList, KMap:
		return 4
	}
	n := 0
	for _, m := range t.Mem {
		n += m.MinWidth()
	}
	return n
}

// Has reports whether some node of the type satisfies p.
func (t *Ty) Has(p func(*Ty) bool) bool {
	if p(t) {
		return true
	}
	for _, c := range t.children() {
		if c.Has(p) {
			return true
		}
	}
	return false
}
func (t *Ty) HasScalar(letters string) bool {
	return t.Has(func(x *Ty) bool { return x.K == KScalar && strings.Contains(letters, x.S) })
}

// ObjectRef is the structure "o" stands for.
func ObjectRef() *Ty {
	s, u := Scalar("s"), Scalar("I")
	mmp := Struct("MetaMethodParameter", []string{"name", "description"}, s, s)
	mm := Struct("MetaMethod", []string{"uid", "returnSignature", "name", "parametersSignature", "description", "parameters", "returnDescription"},
		u, s, s, s, s, List(mmp), s)
	ms := Struct("MetaSignal", []string{"uid", "name", "signature"}, u, s, s)
	mp := Struct("MetaProperty", []string{"uid", "name", "signature"}, u, s, s)
	mo := Struct("MetaObject", []string{"methods", "signals", "properties", "description"}, Map(u, mm), Map(u, ms), Map(u, mp), s)
	return Struct("ObjectReference", []string{"metaObject", "serviceID", "objectID"}, mo, u, u)
}
func MetaObjectTy() *Ty { return ObjectRef().Mem[0] }

// ---------- generation ----------

type GenOpts struct {
	MaxDepth       int
	Scalars        string // letters allowed as leaves
	KeyScalar      string // letters allowed as map keys (comparable Go types)
	MaxWidth       int
	Template       bool // allow Name<Name> struct names
	ZeroWidthElems bool // allow lists of void / of empty tuples
}

var names = []string{"a", "b", "x", "y", "name", "value", "id", "Pos", "f1", "f_2", "data", "k"}
var snames = []string{"A", "Point", "Info", "S1", "T_2", "Pair", "Rec", "Box"}

func GenTy(r *hx.Rng, o GenOpts, depth int) *Ty {
	if depth >= o.MaxDepth || (depth > 0 && r.Chance(0.35)) {
		return Scalar(string(o.Scalars[r.Intn(len(o.Scalars))]))
	}
	switch r.Intn(4) {
	case 0:
		e := GenTy(r, o, depth+1)
		if e.MinWidth() == 0 && !o.ZeroWidthElems {
			e = Scalar("i")
		}
		return List(e)
	case 1:
		return Map(Scalar(string(o.KeyScalar[r.Intn(len(o.KeyScalar))])), GenTy(r, o, depth+1))
	case 2:
		n := r.Intn(o.MaxWidth + 1)
		m := make([]*Ty, n)
		for i := range m {
			m[i] = GenTy(r, o, depth+1)
		}
		return Tuple(m...)
	default:
		n := r.Intn(o.MaxWidth + 1)
		m := make([]*Ty, n)
		f := make([]string, n)
		perm := r.Intn(len(names))
		for i := range m {
			m[i] = GenTy(r, o, depth+1)
			f[i] = names[(perm+i)%len(names)]
		}
		name := snames[r.Intn(len(snames))]
		if o.Template && r.Chance(0.2) {
			name += "<" + snames[r.Intn(len(snames))] + ">"
		}
		return Struct(name, f, m...)
	}
}

type VK int

const (
	VNum VK = iota
	VBool
	VStr
	VList
	VMap
	VTup
	VDyn
)

// Val mirrors coq/theories/Wire.v tval.
type Val struct {
	K    VK
	W    int
	Bits uint64
	B    bool
	S    []byte
	L    []*Val
	KV   [][2]*Val
	T    *Ty
	V    *Val
}

func width(letter string) int {
	switch letter {
	case "c", "C":
		return 1
	case "w", "W":
		return 2
	case "i", "I", "f":
		return 4
	case "l", "L", "d":
		return 8
	}
	return 0
}

func genBits(r *hx.Rng, w int, float bool) uint64 {
	mask := uint64(math.MaxUint64)
	if w < 8 {
		mask = (uint64(1) << uint(8*w)) - 1
	}
	var v uint64
	switch r.Intn(7) {
	case 0:
		v = 0
	case 1:
		v = 1
	case 2:
		v = mask
	case 3:
		v = mask >> 1
	case 4:
		v = (mask >> 1) + 1
	case 5:
		v = uint64(1) << uint(r.Intn(8*w))
	default:
		v = r.U64()
	}
	v &= mask
	if float {
		// keep NaN payloads out: the reflection path converts float32 <-> float64
		if w == 4 && v&0x7f800000 == 0x7f800000 && v&0x007fffff != 0 {
			v &^= 0x007fffff
		}
		if w == 8 && v&0x7ff0000000000000 == 0x7ff0000000000000 && v&0x000fffffffffffff != 0 {
			v &^= 0x000fffffffffffff
		}
	}
	return v
}

func genStr(r *hx.Rng) []byte {
	switch r.Intn(6) {
	case 0:
		return nil
	case 1:
		// one byte, any value: one-character strings are what signatures mostly are
		if r.Bool() {
			return []byte{byte(r.Intn(256))}
		}
		return []byte{byte('a' + r.Intn(26))}
	case 2:
		return r.Bytes(r.Intn(300))
	default:
		n := r.Intn(12)
		b := make([]byte, n)
		for i := range b {
			b[i] = byte(' ' + r.Intn(95))
		}
		return b
	}
}

// DirectedTys lists, for every scalar letter of the alphabet given, the small types in which that
// scalar is the element of a list, of a nested list, a map value, a map key (when it can be one),
// a tuple and a struct member next to a container: a special case for one element kind in one
// position (a "fast path") is exercised whatever the random draw does.  With zeroWidth, the
// containers whose elements occupy no byte (void, the empty tuple, the empty struct) follow,
// alone, nested in each other and next to sized members.
func DirectedTys(scalars, keyScalars string, zeroWidth bool) []*Ty {
	var out []*Ty
	for _, c := range scalars {
		x := func() *Ty { return Scalar(string(c)) }
		out = append(out,
			List(x()),
			List(List(x())),
			Map(Scalar("s"), x()),
			Map(Scalar("I"), List(x())),
			Tuple(x()),
			Tuple(Scalar("i"), List(x())),
			Tuple(List(x()), Scalar("s")),
			Struct("P", []string{"a", "b"}, x(), List(x())),
			List(Tuple(x(), x())),
		)
		if strings.ContainsRune(keyScalars, c) {
			out = append(out, Map(x(), Scalar("i")), Map(x(), x()))
		}
	}
	if zeroWidth {
		v, e := func() *Ty { return Scalar("v") }, func() *Ty { return Tuple() }
		out = append(out,
			List(v()), List(e()), List(Struct("E", nil)),
			List(List(v())), List(List(e())), List(List(List(v()))),
			List(Tuple(List(e()))), List(Tuple(v(), e())),
			Map(Scalar("i"), List(v())), Map(Scalar("s"), List(e())), Map(Scalar("I"), e()),
			Tuple(List(v()), Scalar("i")), Tuple(Scalar("i"), List(v()), Scalar("s")), Tuple(List(e()), List(v())),
			Struct("Z", []string{"a", "b"}, List(List(v())), Scalar("s")),
			List(Map(Scalar("i"), v())),
		)
	}
	return out
}

// CollidingTys lists groups of types that are DIFFERENT but look alike to anything that keys a cache by
// part of a type: same struct name with another layout (at top level and nested under an identical
// outer declaration), same layout with other member names, a struct and the tuple of its members,
// the same name at two nesting levels.  Used in the order given (A, B, A again): whatever an
// implementation remembers about A must not leak into B, nor B into the second A.
func CollidingTys() []*Ty {
	st := func(name string, fields []string, m ...*Ty) *Ty { return Struct(name, fields, m...) }
	i, l, s, d := func() *Ty { return Scalar("i") }, func() *Ty { return Scalar("l") }, func() *Ty { return Scalar("s") }, func() *Ty { return Scalar("d") }
	groups := [][]*Ty{
		{st("P", []string{"a"}, i()), st("P", []string{"a"}, s()), st("P", []string{"a"}, l())},
		{st("P", []string{"a", "b"}, i(), s()), st("P", []string{"b", "a"}, i(), s()), st("P", []string{"a", "b"}, s(), i())},
		{st("Event", []string{"kind", "at"}, i(), st("Stamp", []string{"sec"}, i())), st("Event", []string{"kind", "at"}, i(), st("Stamp", []string{"sec"}, l())),
			st("Event", []string{"kind", "at"}, i(), st("Stamp", []string{"sec", "ns"}, i(), i()))},
		{List(st("Row", []string{"v"}, i())), List(st("Row", []string{"v"}, d())), List(st("Row", []string{"w"}, i()))},
		{Map(s(), st("V", []string{"x"}, i())), Map(s(), st("V", []string{"x"}, s())), Map(i(), st("V", []string{"x"}, i()))},
		{st("T", []string{"a", "b"}, i(), s()), Tuple(i(), s()), st("U", []string{"a", "b"}, i(), s())},
		{st("N", []string{"in"}, st("N", []string{"in"}, i())), st("N", []string{"in"}, i()), st("N", []string{"in"}, st("N", []string{"in"}, s()))},
		{st("Box<A>", []string{"v"}, i()), st("Box<B>", []string{"v"}, s()), st("Box", []string{"v"}, l())},
	}
	var out []*Ty
	for _, g := range groups {
		out = append(out, g...)
		out = append(out, g[0]) // the first one again, after the others
	}
	return out
}

// GenValFull is GenVal with every list and map holding exactly n elements (fewer map entries
// when the key type has fewer values).
func GenValFull(r *hx.Rng, t *Ty, n int) *Val {
	switch t.K {
	case KList:
		v := &Val{K: VList}
		for i := 0; i < n; i++ {
			v.L = append(v.L, GenValFull(r, t.Elem, n))
		}
		return v
	case KMap:
		v := &Val{K: VMap}
		seen := map[string]bool{}
		for try := 0; try < 8*n && len(v.KV) < n; try++ {
			k := GenValFull(r, t.Key, n)
			ks := string(k.Enc())
			if seen[ks] {
				continue
			}
			seen[ks] = true
			v.KV = append(v.KV, [2]*Val{k, GenValFull(r, t.Val, n)})
		}
		return v
	case KScalar:
		return GenVal(r, t, n)
	default:
		v := &Val{K: VTup}
		for _, m := range t.Mem {
			v.L = append(v.L, GenValFull(r, m, n))
		}
		return v
	}
}

// DynOpts are the types a dynamic value may carry (kept shallow).
var DynOpts = GenOpts{MaxDepth: 2, Scalars: "cCwWiIlLfdbs", KeyScalar: "sIi", MaxWidth: 3}

func GenVal(r *hx.Rng, t *Ty, maxLen int) *Val {
	switch t.K {
	case KScalar:
		switch t.S {
		case "b":
			return &Val{K: VBool, B: r.Bool()}
		case "s":
			return &Val{K: VStr, S: genStr(r)}
		case "v":
			return &Val{K: VTup}
		case "m":
			dt := GenTy(r, DynOpts, 0)
			return &Val{K: VDyn, T: dt, V: GenVal(r, dt, maxLen)}
		case "o":
			if maxLen > 2 {
				maxLen = 2
			}
			return GenVal(r, ObjectRef(), maxLen)
		case "X":
			return &Val{K: VTup}
		default:
			w := width(t.S)
			return &Val{K: VNum, W: w, Bits: genBits(r, w, t.S == "f" || t.S == "d")}
		}
	case KList:
		n := r.Intn(maxLen + 1)
		v := &Val{K: VList}
		for i := 0; i < n; i++ {
			v.L = append(v.L, GenVal(r, t.Elem, maxLen))
		}
		return v
	case KMap:
		n := r.Intn(maxLen + 1)
		v := &Val{K: VMap}
		seen := map[string]bool{}
		for i := 0; i < n; i++ {
			k := GenVal(r, t.Key, maxLen)
			ks := string(k.Enc())
			if seen[ks] {
				continue
			}
			seen[ks] = true
			v.KV = append(v.KV, [2]*Val{k, GenVal(r, t.Val, maxLen)})
		}
		return v
	default:
		v := &Val{K: VTup}
		for _, m := range t.Mem {
			v.L = append(v.L, GenVal(r, m, maxLen))
		}
		return v
	}
}

func encStr(b *bytes.Buffer, s []byte) {
	notePos(b)
	var t [4]byte
	binary.LittleEndian.PutUint32(t[:], uint32(len(s)))
	b.Write(t[:])
	b.Write(s)
}

// Enc is the serialization as documented in doc/about-qimessaging.md.
func (v *Val) Enc() []byte {
	var b bytes.Buffer
	v.enc(&b)
	return b.Bytes()
}

// EncPos also returns the offsets of every 4-byte length / count field of the encoding.
func (v *Val) EncPos() ([]byte, []int) {
	var b bytes.Buffer
	posSink = &[]int{}
	v.enc(&b)
	p := *posSink
	posSink = nil
	return b.Bytes(), p
}

var posSink *[]int

func notePos(b *bytes.Buffer) {
	if posSink != nil {
		*posSink = append(*posSink, b.Len())
	}
}
func (v *Val) enc(b *bytes.Buffer) {
	switch v.K {
	case VNum:
		var t [8]byte
		binary.LittleEndian.PutUint64(t[:], v.Bits)
		b.Write(t[:v.W])
	case VBool:
		if v.B {
			b.WriteByte(1)
		} else {
			b.WriteByte(0)
		}
	case VStr:
		encStr(b, v.S)
	case VList:
		notePos(b)
		var t [4]byte
		binary.LittleEndian.PutUint32(t[:], uint32(len(v.L)))
		b.Write(t[:])
		for _, x := range v.L {
			x.enc(b)
		}
	case VMap:
		notePos(b)
		var t [4]byte
		binary.LittleEndian.PutUint32(t[:], uint32(len(v.KV)))
		b.Write(t[:])
		for _, kv := range v.KV {
			kv[0].enc(b)
			kv[1].enc(b)
		}
	case VTup:
		for _, x := range v.L {
			x.enc(b)
		}
	case VDyn:
		encStr(b, []byte(v.T.Sig()))
		v.V.enc(b)
	}
}

func (v *Val) Coq() string {
	switch v.K {
	case VNum:
		return fmt.Sprintf("VNum %d %d%%N", v.W, v.Bits)
	case VBool:
		return "VBool " + hx.Bool(v.B)
	case VStr:
		return "VStr (unhex " + hx.Hex(v.S) + ")"
	case VList, VTup:
		it := make([]string, len(v.L))
		for i, x := range v.L {
			it[i] = x.Coq()
		}
		if v.K == VList {
			return "VList " + hx.List(it)
		}
		return "VTup " + hx.List(it)
	case VMap:
		it := make([]string, len(v.KV))
		for i, kv := range v.KV {
			it[i] = "(" + kv[0].Coq() + ", " + kv[1].Coq() + ")"
		}
		return "VMap " + hx.List(it)
	default:
		return "VDyn (" + v.T.Coq() + ") (" + v.V.Coq() + ")"
	}
}

// Canon is a canonical text of the value with map entries sorted (for unordered comparison).
func (v *Val) Canon() string {
	switch v.K {
	case VNum:
		return fmt.Sprintf("n%d:%x", v.W, v.Bits)
	case VBool:
		return fmt.Sprintf("b%v", v.B)
	case VStr:
		return "s" + hex.EncodeToString(v.S)
	case VList, VTup:
		it := make([]string, len(v.L))
		for i, x := range v.L {
			it[i] = x.Canon()
		}
		return fmt.Sprintf("%c[%s]", "lt"[btoi(v.K == VTup)], strings.Join(it, ","))
	case VMap:
		it := make([]string, len(v.KV))
		for i, kv := range v.KV {
			it[i] = kv[0].Canon() + "=>" + kv[1].Canon()
		}
		sort.Strings(it)
		return "m{" + strings.Join(it, ",") + "}"
	default:
		return "d<" + v.T.Sig() + ">" + v.V.Canon()
	}
}
func btoi(b bool) int {
	if b {
		return 1
	}
	return 0
}

// Decode reads a value of type t from data as documented (the harness's own decoder, used
// to learn the map order an encoder chose).  ok=false when data is not such an encoding.
func Decode(t *Ty, data []byte) (v *Val, rest []byte, ok bool) {
	defer func() {
		if recover() != nil {
			v, rest, ok = nil, nil, false
		}
	}()
	d := &dec{b: data}
	v = d.val(t)
	return v, d.b, !d.bad
}

type dec struct {
	b   []byte
	bad bool
}

func (d *dec) take(n int) []byte {
	if n < 0 || len(d.b) < n {
		d.bad = true
		panic("short")
	}
	x := d.b[:n]
	d.b = d.b[n:]
	return x
}
func (d *dec) u32() uint32 { return binary.LittleEndian.Uint32(d.take(4)) }
func (d *dec) val(t *Ty) *Val {
	switch t.K {
	case KScalar:
		switch t.S {
		case "b":
			return &Val{K: VBool, B: d.take(1)[0] != 0}
		case "s":
			n := d.u32()
			return &Val{K: VStr, S: append([]byte(nil), d.take(int(n))...)}
		case "v":
			return &Val{K: VTup}
		case "o":
			return d.val(ObjectRef())
		case "m", "X":
			d.bad = true
			panic("dyn")
		default:
			w := width(t.S)
			var tmp [8]byte
			copy(tmp[:], d.take(w))
			return &Val{K: VNum, W: w, Bits: binary.LittleEndian.Uint64(tmp[:])}
		}
	case KList:
		n := d.u32()
		v := &Val{K: VList}
		for i := uint32(0); i < n; i++ {
			v.L = append(v.L, d.val(t.Elem))
		}
		return v
	case KMap:
		n := d.u32()
		v := &Val{K: VMap}
		for i := uint32(0); i < n; i++ {
			k := d.val(t.Key)
			v.KV = append(v.KV, [2]*Val{k, d.val(t.Val)})
		}
		return v
	default:
		v := &Val{K: VTup}
		for _, m := range t.Mem {
			v.L = append(v.L, d.val(m))
		}
		return v
	}
}

// ---------- reflection ----------

// Fill builds a Go value of type rt (as given by signature.Type()) holding v.
func Fill(rt reflect.Type, v *Val) reflect.Value {
	out := reflect.New(rt).Elem()
	fill(out, v)
	return out
}
func fill(dst reflect.Value, v *Val) {
	switch dst.Kind() {
	case reflect.Bool:
		dst.SetBool(v.B)
	case reflect.String:
		dst.SetString(string(v.S))
	case reflect.Int8, reflect.Int16, reflect.Int32, reflect.Int64, reflect.Int:
		sh := uint(64 - 8*v.W)
		dst.SetInt(int64(v.Bits<<sh) >> sh)
	case reflect.Uint8, reflect.Uint16, reflect.Uint32, reflect.Uint64, reflect.Uint:
		dst.SetUint(v.Bits)
	case reflect.Float32:
		dst.SetFloat(float64(math.Float32frombits(uint32(v.Bits))))
	case reflect.Float64:
		dst.SetFloat(math.Float64frombits(v.Bits))
	case reflect.Slice:
		s := reflect.MakeSlice(dst.Type(), len(v.L), len(v.L))
		for i, x := range v.L {
			fill(s.Index(i), x)
		}
		dst.Set(s)
	case reflect.Map:
		m := reflect.MakeMap(dst.Type())
		for _, kv := range v.KV {
			k := reflect.New(dst.Type().Key()).Elem()
			fill(k, kv[0])
			e := reflect.New(dst.Type().Elem()).Elem()
			fill(e, kv[1])
			m.SetMapIndex(k, e)
		}
		dst.Set(m)
	case reflect.Struct:
		for i := 0; i < dst.NumField() && i < len(v.L); i++ {
			fill(dst.Field(i), v.L[i])
		}
	}
}

// Read converts a Go value back into a data tree following type t.
func Read(rv reflect.Value, t *Ty) *Val {
	if t.K == KScalar && t.S == "o" {
		t = ObjectRef()
	}
	switch rv.Kind() {
	case reflect.Bool:
		return &Val{K: VBool, B: rv.Bool()}
	case reflect.String:
		return &Val{K: VStr, S: []byte(rv.String())}
	case reflect.Int8, reflect.Int16, reflect.Int32, reflect.Int64, reflect.Int:
		w := width(t.S)
		m := uint64(math.MaxUint64)
		if w < 8 {
			m = (uint64(1) << uint(8*w)) - 1
		}
		return &Val{K: VNum, W: w, Bits: uint64(rv.Int()) & m}
	case reflect.Uint8, reflect.Uint16, reflect.Uint32, reflect.Uint64, reflect.Uint:
		return &Val{K: VNum, W: width(t.S), Bits: rv.Uint()}
	case reflect.Float32:
		return &Val{K: VNum, W: 4, Bits: uint64(math.Float32bits(float32(rv.Float())))}
	case reflect.Float64:
		return &Val{K: VNum, W: 8, Bits: math.Float64bits(rv.Float())}
	case reflect.Slice:
		v := &Val{K: VList}
		for i := 0; i < rv.Len(); i++ {
			v.L = append(v.L, Read(rv.Index(i), t.Elem))
		}
		return v
	case reflect.Map:
		v := &Val{K: VMap}
		for _, k := range rv.MapKeys() {
			v.KV = append(v.KV, [2]*Val{Read(k, t.Key), Read(rv.MapIndex(k), t.Val)})
		}
		sort.Slice(v.KV, func(i, j int) bool { return v.KV[i][0].Canon() < v.KV[j][0].Canon() })
		return v
	case reflect.Struct:
		v := &Val{K: VTup}
		for i := 0; i < rv.NumField() && i < len(t.Mem); i++ {
			v.L = append(v.L, Read(rv.Field(i), t.Mem[i]))
		}
		return v
	}
	return &Val{K: VTup}
}
