package c05

import (
	"bytes"
	"fmt"
	"go/ast"
	"go/parser"
	"go/printer"
	"go/token"
	"path"
	"sort"
	"strconv"
	"strings"

	"qv/internal/wg"
)

// TyGo prints a wg.Ty as the Go expression that rebuilds it.
func TyGo(t *wg.Ty) string {
	if t == nil {
		return "nil"
	}
	list := func(ts []*wg.Ty) string {
		it := make([]string, len(ts))
		for i, x := range ts {
			it[i] = TyGo(x)
		}
		return strings.Join(it, ", ")
	}
	switch t.K {
	case wg.KScalar:
		if t.S == "o" && t.Name != "" {
			return fmt.Sprintf("rt.ObjTy(%q)", t.Name)
		}
		return fmt.Sprintf("wg.Scalar(%q)", t.S)
	case wg.KList:
		return "wg.List(" + TyGo(t.Elem) + ")"
	case wg.KMap:
		return "wg.Map(" + TyGo(t.Key) + ", " + TyGo(t.Val) + ")"
	case wg.KTuple:
		return "wg.Tuple(" + list(t.Mem) + ")"
	}
	return fmt.Sprintf("wg.Struct(%q, %#v, %s)", t.Name, append([]string{}, t.Fields...), list(t.Mem))
}

type goFile struct {
	fset    *token.FileSet
	f       *ast.File
	ifaces  map[string]*ast.InterfaceType
	imports map[string]string // alias -> path
}

func parseGen(src []byte) (*goFile, error) {
	g := &goFile{fset: token.NewFileSet(), ifaces: map[string]*ast.InterfaceType{}, imports: map[string]string{}}
	f, err := parser.ParseFile(g.fset, "pk_gen.go", src, 0)
	if err != nil {
		return nil, err
	}
	g.f = f
	for _, im := range f.Imports {
		p, _ := strconv.Unquote(im.Path.Value)
		alias := path.Base(p)
		if im.Name != nil {
			alias = im.Name.Name
		}
		g.imports[alias] = p
	}
	for _, d := range f.Decls {
		gd, ok := d.(*ast.GenDecl)
		if !ok {
			continue
		}
		for _, s := range gd.Specs {
			if ts, ok := s.(*ast.TypeSpec); ok {
				if it, ok := ts.Type.(*ast.InterfaceType); ok {
					g.ifaces[ts.Name.Name] = it
				}
			}
		}
	}
	return g, nil
}

type goMethod struct {
	name    string
	params  []string // type expressions, textually
	results []string
}

func (g *goFile) text(e ast.Expr) string {
	var b bytes.Buffer
	printer.Fprint(&b, g.fset, e)
	return b.String()
}

func (g *goFile) fields(fl *ast.FieldList) []string {
	var out []string
	if fl == nil {
		return nil
	}
	for _, f := range fl.List {
		n := len(f.Names)
		if n == 0 {
			n = 1
		}
		for i := 0; i < n; i++ {
			out = append(out, g.text(f.Type))
		}
	}
	return out
}

// methods of a generated interface type in declaration order (embedded interfaces skipped).
func (g *goFile) methods(name string) ([]goMethod, bool) {
	it, ok := g.ifaces[name]
	if !ok {
		return nil, false
	}
	var ms []goMethod
	for _, f := range it.Methods.List {
		ft, ok := f.Type.(*ast.FuncType)
		if !ok || len(f.Names) != 1 {
			continue
		}
		ms = append(ms, goMethod{f.Names[0].Name, g.fields(ft.Params), g.fields(ft.Results)})
	}
	return ms, true
}

// usedImports: package aliases mentioned by type expressions of the implementor interfaces.
func (g *goFile) usedImports(names []string) []string {
	used := map[string]bool{}
	for _, n := range names {
		if it, ok := g.ifaces[n]; ok {
			ast.Inspect(it, func(x ast.Node) bool {
				if se, ok := x.(*ast.SelectorExpr); ok {
					if id, ok := se.X.(*ast.Ident); ok {
						if _, imp := g.imports[id.Name]; imp {
							used[id.Name] = true
						}
					}
				}
				return true
			})
		}
	}
	var out []string
	for a := range used {
		out = append(out, a)
	}
	sort.Strings(out)
	return out
}

// Scaffold writes, for a generated file, the implementation of every <Iface>Implementor
// (package-internal file) and the driver (package main).  Go names are taken from the
// generated file by position: methods in id order, then signals, then properties -- the
// order every generator of /repo walks a MetaObject in.
func Scaffold(p *Package, genSrc []byte, importPath string) (implSrc, mainSrc string, err error) {
	g, err := parseGen(genSrc)
	if err != nil {
		return "", "", fmt.Errorf("generated file does not parse: %v", err)
	}
	var impl, drv bytes.Buffer
	var implNames []string
	// the stub templates spell the interface name as in the IDL (pinned tree) or title-cased
	stubName := func(it *Iface) string {
		if _, ok := g.ifaces[it.Name+"Implementor"]; ok {
			return it.Name
		}
		return cleanName(it.Name)
	}
	for _, it := range p.Ifaces {
		implNames = append(implNames, stubName(it)+"Implementor")
	}
	fmt.Fprintf(&impl, "package %s\n\nimport (\n", g.f.Name.Name)
	for _, a := range g.usedImports(implNames) {
		fmt.Fprintf(&impl, "\t%s %q\n", a, g.imports[a])
	}
	impl.WriteString(")\n\ntype Zz05Rec interface {\n\tArgs(key string, args ...interface{})\n\tRet(key string, out interface{})\n\tHelper(iface string, h interface{})\n}\n")
	fmt.Fprintf(&drv, "package main\n\nimport (\n\t\"github.com/lugu/qiloop/bus\"\n\tg %q\n\trt \"qv/internal/c05rt\"\n\t\"qv/internal/wg\"\n)\n\nvar _ = wg.Scalar\n\nfunc main() {\n\td := rt.New()\n", importPath)
	for ii, it := range p.Ifaces {
		var fns, sigs, props []*Action
		for _, a := range it.Actions {
			switch a.Kind {
			case "fn":
				fns = append(fns, a)
			case "sig":
				sigs = append(sigs, a)
			default:
				props = append(props, a)
			}
		}
		im, ok1 := g.methods(stubName(it) + "Implementor")
		hm, ok2 := g.methods(stubName(it) + "SignalHelper")
		pm, ok3 := g.methods(cleanName(it.Name) + "Proxy")
		if !ok1 || !ok2 || !ok3 {
			return "", "", fmt.Errorf("generated file lacks the interfaces of %s", it.Name)
		}
		if len(im) != 2+len(fns)+len(props) || len(hm) != len(sigs)+len(props) || len(pm) != len(fns)+len(sigs)+3*len(props)+1 {
			return "", "", fmt.Errorf("generated interfaces of %s do not have one entry per action (%d %d %d)", it.Name, len(im), len(hm), len(pm))
		}
		tn := fmt.Sprintf("Zz05Impl%d", ii)
		fmt.Fprintf(&impl, "\ntype %s struct {\n\tR    Zz05Rec\n\tInst string // which object of the interface this is (\"\" = the service's main object)\n}\n\n", tn)
		fmt.Fprintf(&impl, "func (z *%s) Activate(a0 %s, a1 %s) error {\n\tz.R.Helper(%q+z.Inst, a1)\n\treturn nil\n}\nfunc (z *%s) OnTerminate() {}\n", tn, im[0].params[0], im[0].params[1], fmt.Sprint(ii), tn)
		key := func(a *Action) string {
			for k, x := range it.Actions {
				if x == a {
					return fmt.Sprintf("%d/%d", ii, k)
				}
			}
			return "?"
		}
		emit := func(m goMethod, k string) {
			var ps, as []string
			for i, t := range m.params {
				ps = append(ps, fmt.Sprintf("a%d %s", i, t))
				as = append(as, fmt.Sprintf(", a%d", i))
			}
			if len(m.results) == 2 {
				fmt.Fprintf(&impl, "func (z *%s) %s(%s) (%s, error) {\n\tz.R.Args(%q+z.Inst%s)\n\tvar r %s\n\tz.R.Ret(%q+z.Inst, &r)\n\treturn r, nil\n}\n",
					tn, m.name, strings.Join(ps, ", "), m.results[0], k, strings.Join(as, ""), m.results[0], k)
			} else {
				fmt.Fprintf(&impl, "func (z *%s) %s(%s) error {\n\tz.R.Args(%q+z.Inst%s)\n\treturn nil\n}\n", tn, m.name, strings.Join(ps, ", "), k, strings.Join(as, ""))
			}
		}
		fmt.Fprintf(&drv, "\td.Add(rt.Iface{Name: %q, Key: %q, Actor: g.%sObject(&g.%s{R: d}),\n\t\tMake: func(s bus.Session, p bus.Proxy) interface{} { return g.Make%s(s, p) },\n", it.Name, fmt.Sprint(ii), stubName(it), tn, cleanName(it.Name))
		fmt.Fprintf(&drv, "\t\tCreate: func(s bus.Session, svc bus.Service, inst string) (interface{}, error) {\n\t\t\treturn g.Create%s(s, svc, &g.%s{R: d, Inst: inst})\n\t\t},\n\t\tActions: []rt.Action{\n", stubName(it), tn)
		tys := func(a *Action) string {
			it := make([]string, len(a.Params))
			for i, x := range a.Params {
				it[i] = TyGo(x.T.Ty())
			}
			return "[]*wg.Ty{" + strings.Join(it, ", ") + "}"
		}
		for i, a := range fns {
			emit(im[2+i], key(a))
			ret := "nil"
			if a.Ret != nil {
				ret = TyGo(a.Ret.Ty())
			}
			fmt.Fprintf(&drv, "\t\t\t{Kind: \"fn\", Name: %q, Key: %q, ID: %d, Proxy: %q, Params: %s, Ret: %s},\n", a.Name, key(a), a.ID, pm[i].name, tys(a), ret)
		}
		for i, a := range sigs {
			fmt.Fprintf(&drv, "\t\t\t{Kind: \"sig\", Name: %q, Key: %q, ID: %d, Proxy: %q, Helper: %q, Params: %s, Payload: %s},\n",
				a.Name, key(a), a.ID, pm[len(fns)+i].name, hm[i].name, tys(a), TyGo(a.PayloadTy()))
		}
		for i, a := range props {
			emit(im[2+len(fns)+i], key(a))
			b := len(fns) + len(sigs) + 3*i
			fmt.Fprintf(&drv, "\t\t\t{Kind: \"prop\", Name: %q, Key: %q, ID: %d, Proxy: %q, Set: %q, Sub: %q, Helper: %q, Params: %s, Payload: %s},\n",
				a.Name, key(a), a.ID, pm[b].name, pm[b+1].name, pm[b+2].name, hm[len(sigs)+i].name, tys(a), TyGo(a.PayloadTy()))
		}
		drv.WriteString("\t\t}})\n")
	}
	drv.WriteString("\td.Run()\n}\n")
	return impl.String(), drv.String(), nil
}
