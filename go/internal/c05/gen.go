package c05

import (
	"fmt"

	"qv/internal/hx"
)

// ---------- plain stream ----------

var plainStructNames = []string{"Point", "Info", "Rec", "Box", "Pair", "Item", "Node", "Frame", "Cfg", "Entry"}
var plainFieldNames = []string{"x", "y", "z", "name", "value", "id", "data", "count", "flag", "ratio", "tags", "items", "w", "h"}
var plainParamNames = []string{"a", "b", "x", "y", "name", "id", "data", "k", "v1", "count", "pos", "arg", "n", "t", "val", "item"}
var plainActionNames = []string{"get", "put", "update", "compute", "fetch", "store", "reset", "ping", "query", "apply", "moved",
	"changed", "ready", "tick", "level", "speed", "mode", "limit", "state", "scan", "merge", "load"}
var plainIfaceNames = []string{"Alpha", "Beta", "Gamma", "Delta", "Motor", "Sensor"}

// map keys: comparable Go types
var keyScalars = []string{"int8", "uint8", "int16", "uint16", "int32", "uint32", "int64", "uint64", "bool", "str", "str", "int32"}

type gen struct {
	r       *hx.Rng
	structs []*StructDecl
	maxD    int
}

func (g *gen) scalar() *IType {
	// "any" gets a fixed share; the rest uniformly
	if g.r.Chance(0.12) {
		return Sc("any")
	}
	return Sc(ScalarNames[g.r.Intn(len(ScalarNames)-1)])
}

func (g *gen) leaf() *IType {
	if len(g.structs) > 0 && g.r.Chance(0.4) {
		return RefTo(g.structs[g.r.Intn(len(g.structs))])
	}
	return g.scalar()
}

func (g *gen) typ(depth int) *IType {
	if depth >= g.maxD || g.r.Chance(0.45) {
		return g.leaf()
	}
	switch g.r.Intn(4) {
	case 0, 1:
		return Vec(g.typ(depth + 1))
	case 2:
		return MapOf(Sc(keyScalars[g.r.Intn(len(keyScalars))]), g.typ(depth+1))
	default:
		n := 1 + g.r.Intn(3)
		m := make([]*IType, n)
		for i := range m {
			m[i] = g.typ(depth + 1)
		}
		return TupleOf(m...)
	}
}

func pickNames(r *hx.Rng, pool []string, n int) []string {
	idx := make([]int, len(pool))
	for i := range idx {
		idx[i] = i
	}
	for i := len(idx) - 1; i > 0; i-- {
		j := r.Intn(i + 1)
		idx[i], idx[j] = idx[j], idx[i]
	}
	out := make([]string, n)
	for i := range out {
		out[i] = pool[idx[i%len(pool)]]
		if i >= len(pool) {
			out[i] += fmt.Sprint(i)
		}
	}
	return out
}

// params draws n parameters; fewTuples keeps most top-level types away from Tuple<> (the
// places where a top-level tuple meets a recorded defect get a small share, not half the run).
func (g *gen) params(n int, fewTuples bool) []Param {
	names := pickNames(g.r, plainParamNames, n)
	ps := make([]Param, n)
	for i := range ps {
		t := g.typ(0)
		for fewTuples && t.K == TTuple && g.r.Chance(0.85) {
			t = g.typ(0)
		}
		ps[i] = Param{names[i], t}
	}
	return ps
}

// GenPlain draws a well-formed package without hostile identifiers: 1-3 interfaces,
// 6-10 actions, 0-3 structs (later ones may embed earlier ones).
func GenPlain(r *hx.Rng, name string) *Package {
	g := &gen{r: r, maxD: 3}
	p := &Package{Name: name, Stream: "plain"}
	ns := r.Intn(4)
	snames := pickNames(r, plainStructNames, ns)
	for i := 0; i < ns; i++ {
		s := &StructDecl{Name: snames[i]}
		nf := 1 + r.Intn(4)
		fn := pickNames(r, plainFieldNames, nf)
		for j := 0; j < nf; j++ {
			s.Fields = append(s.Fields, Field{fn[j], g.typ(1)})
		}
		g.structs = append(g.structs, s)
	}
	p.Structs = g.structs
	ni := 1 + r.Intn(3)
	total := 6 + r.Intn(5)
	inames := pickNames(r, plainIfaceNames, ni)
	anames := pickNames(r, plainActionNames, total)
	for i := 0; i < ni; i++ {
		p.Ifaces = append(p.Ifaces, &Iface{Name: inames[i]})
	}
	for k := 0; k < total; k++ {
		it := p.Ifaces[k%ni]
		a := &Action{Name: anames[k]}
		switch x := r.Intn(100); {
		case x < 55:
			a.Kind = "fn"
			a.Params = g.params(r.Intn(4), false)
			if r.Chance(0.7) {
				a.Ret = g.typ(0)
				for len(a.Params) == 0 && a.Ret.K == TTuple && r.Chance(0.85) {
					a.Ret = g.typ(0)
				}
			}
		case x < 80:
			a.Kind = "sig"
			a.Params = g.params(r.Pick(1, 1, 1, 1, 2, 3, 0), true)
		default:
			a.Kind = "prop"
			a.Params = g.params(r.Pick(1, 1, 1, 1, 1, 1, 1, 1, 1, 1, 1, 1, 1, 1, 2, 0), true)
		}
		it.Actions = append(it.Actions, a)
	}
	// object references (the shapes /repo's own IDL uses: an object of another interface of the
	// package as method result, method parameter, signal payload)
	if ni >= 2 && r.Chance(0.35) {
		addObjActions(r, g, p.Ifaces[r.Intn(ni)], p.Ifaces[r.Intn(ni)], 1+r.Intn(3))
	}
	// small packages get their share: every fifth package is cut down to one or two actions
	if r.Chance(0.2) {
		p.Ifaces = p.Ifaces[:1]
		n := 1 + r.Intn(2)
		if len(p.Ifaces[0].Actions) > n {
			p.Ifaces[0].Actions = p.Ifaces[0].Actions[:n]
		}
	}
	p.Number()
	return p
}

// addObjActions appends to interface from up to n actions that carry an object of interface to.
func addObjActions(r *hx.Rng, g *gen, from, to *Iface, n int) {
	kinds := []int{0, 1, 2}
	for i := 0; i < n && i < len(kinds); i++ {
		name := fmt.Sprintf("%s%d", []string{"make", "take", "sent"}[kinds[i]], r.Intn(90))
		switch kinds[i] {
		case 0:
			from.Actions = append(from.Actions, &Action{Kind: "fn", Name: name, Params: g.params(r.Intn(2), false), Ret: ObjOf(to)})
		case 1:
			ps := g.params(r.Intn(3), false)
			ps = append(ps, Param{"ob", ObjOf(to)})
			a := &Action{Kind: "fn", Name: name, Params: ps}
			if r.Bool() {
				a.Ret = g.scalar()
			}
			from.Actions = append(from.Actions, a)
		default:
			from.Actions = append(from.Actions, &Action{Kind: "sig", Name: name, Params: []Param{{"ob", ObjOf(to)}}})
		}
	}
}

// NonTrivial: a struct used by two actions, or a nested container somewhere.
func (p *Package) NonTrivial() bool {
	use := map[*StructDecl]int{}
	nested := false
	visit := func(t *IType, seen map[*StructDecl]bool) {
		t.Walk(func(x *IType) {
			if x.K == TRef {
				seen[x.Ref] = true
			}
			if x.K == TVec || x.K == TMap {
				for _, c := range []*IType{x.Elem, x.Val} {
					if c != nil && (c.K == TVec || c.K == TMap || c.K == TTuple) {
						nested = true
					}
				}
			}
		})
	}
	for _, s := range p.Structs {
		for _, f := range s.Fields {
			visit(f.T, map[*StructDecl]bool{})
		}
	}
	for _, it := range p.Ifaces {
		for _, a := range it.Actions {
			seen := map[*StructDecl]bool{}
			for _, x := range a.Params {
				visit(x.T, seen)
			}
			visit(a.Ret, seen)
			for s := range seen {
				use[s]++
			}
		}
	}
	for _, n := range use {
		if n >= 2 {
			return true
		}
	}
	return nested
}

// NumActions counts actions over all interfaces.
func (p *Package) NumActions() int {
	n := 0
	for _, it := range p.Ifaces {
		n += len(it.Actions)
	}
	return n
}

// ---------- directed streams ----------

// numeric element types: what a long container of them looks like fits a correspondence case
var sizeNums = []string{"uint8", "int8", "uint8", "int16", "uint16", "bool", "int32", "float32", "int64"}

// keys with room for more than 4096 different values
var sizeKeys = []string{"uint16", "int16", "int32", "uint32", "int64", "uint64", "str"}

// container draws a type with at least one list or map in it: a list or map of numbers, of
// any leaf (strings, dynamic values, structs), a container in a container, a container as
// struct field or tuple member.
func (g *gen) container(p *Package) *IType {
	num := func() *IType { return Sc(sizeNums[g.r.Intn(len(sizeNums))]) }
	key := func() *IType { return Sc(sizeKeys[g.r.Intn(len(sizeKeys))]) }
	flat := func() *IType {
		switch g.r.Intn(5) {
		case 0, 1:
			return Vec(num())
		case 2:
			return MapOf(key(), num())
		case 3:
			return Vec(g.leaf())
		default:
			return MapOf(key(), g.leaf())
		}
	}
	switch g.r.Intn(8) {
	case 0, 1, 2, 3:
		return flat()
	case 4:
		return Vec(flat())
	case 5:
		return MapOf(key(), flat())
	case 6:
		return TupleOf(Sc("int32"), flat())
	default:
		// a struct that holds the container next to plain fields
		s := &StructDecl{Name: fmt.Sprintf("Hold%d", len(p.Structs)), Fields: []Field{{"n", Sc("int32")}, {"items", flat()}, {"label", Sc("str")}}}
		p.Structs = append(p.Structs, s)
		return RefTo(s)
	}
}

// GenSizes draws a package every action of which carries a list or a map, to be driven with
// the containers at the sizes where the codecs change behaviour (Package.Sizes).
func GenSizes(r *hx.Rng, name string) *Package {
	g := &gen{r: r, maxD: 2}
	p := &Package{Name: name, Stream: "sizes", Sizes: "0,1,4095,4096", Steps: 6}
	s := &StructDecl{Name: "Sample", Fields: []Field{{"id", Sc("int32")}, {"label", Sc("str")}}}
	if r.Bool() {
		s.Fields = append(s.Fields, Field{"w", g.scalar()})
	}
	p.Structs = append(p.Structs, s)
	g.structs = []*StructDecl{s}
	it := &Iface{Name: pickNames(r, plainIfaceNames, 1)[0]}
	p.Ifaces = []*Iface{it}
	nfn := 4 + r.Intn(2)
	names := pickNames(r, plainActionNames, nfn+2)
	for k := 0; k < nfn; k++ {
		a := &Action{Kind: "fn", Name: names[k]}
		pn := pickNames(r, plainParamNames, 3)
		// a container as parameter (most methods), possibly between plain parameters; a container
		// as result (most methods)
		if k == 0 || r.Chance(0.75) {
			if r.Chance(0.3) {
				a.Params = append(a.Params, Param{pn[0], g.scalar()})
			}
			a.Params = append(a.Params, Param{pn[1], g.container(p)})
			if r.Chance(0.3) {
				a.Params = append(a.Params, Param{pn[2], g.scalar()})
			}
		}
		if k == 1 || len(a.Params) == 0 || r.Chance(0.75) {
			a.Ret = g.container(p)
			for len(a.Params) == 0 && a.Ret.K == TTuple {
				a.Ret = g.container(p)
			}
		}
		it.Actions = append(it.Actions, a)
	}
	st := g.container(p)
	for st.K == TTuple {
		st = g.container(p)
	}
	it.Actions = append(it.Actions, &Action{Kind: "sig", Name: names[nfn], Params: []Param{{"a", st}}})
	pt := g.container(p)
	for pt.K == TTuple {
		pt = g.container(p)
	}
	it.Actions = append(it.Actions, &Action{Kind: "prop", Name: names[nfn+1], Params: []Param{{"a", pt}}})
	p.Number()
	return p
}

// GenDynamic draws a package in which dynamic values stand in every place generated code
// carries them: parameter (alone, between plain parameters), result, signal payload (alone
// and as one of several), property, field of a struct, member of a tuple, element of a list,
// value of a map.  The driver repeats each action once per kind of dynamic value (Package.Dyn).
func GenDynamic(r *hx.Rng, name string) *Package {
	g := &gen{r: r, maxD: 2}
	p := &Package{Name: name, Stream: "dynamic", Dyn: true, Steps: 12}
	any := func() *IType { return Sc("any") }
	plain := func() *IType { return Sc(ScalarNames[r.Intn(len(ScalarNames)-1)]) }
	s := &StructDecl{Name: "Tagged", Fields: []Field{{"id", Sc("int32")}, {"payload", any()}, {"label", Sc("str")}}}
	if r.Bool() {
		s.Fields = append(s.Fields, Field{"extra", Vec(any())})
	}
	p.Structs = append(p.Structs, s)
	g.structs = []*StructDecl{s}
	// a type with a dynamic value somewhere below the top
	inside := func() *IType {
		switch r.Intn(6) {
		case 0:
			return Vec(any())
		case 1:
			return MapOf(Sc(keyScalars[r.Intn(len(keyScalars))]), any())
		case 2:
			return RefTo(s)
		case 3:
			return TupleOf(plain(), any())
		case 4:
			return Vec(RefTo(s))
		default:
			return MapOf(Sc("str"), Vec(any()))
		}
	}
	either := func() *IType {
		if r.Chance(0.5) {
			return any()
		}
		return inside()
	}
	it := &Iface{Name: pickNames(r, plainIfaceNames, 1)[0]}
	p.Ifaces = []*Iface{it}
	names := pickNames(r, plainActionNames, 9)
	pn := pickNames(r, plainParamNames, 3)
	ret := inside()
	for ret.K == TTuple {
		ret = inside()
	}
	sigT, propT := inside(), inside()
	for sigT.K == TTuple {
		sigT = inside()
	}
	for propT.K == TTuple {
		propT = inside()
	}
	it.Actions = []*Action{
		{Kind: "fn", Name: names[0], Params: []Param{{pn[0], any()}}, Ret: any()},
		{Kind: "fn", Name: names[1], Params: []Param{{pn[0], plain()}, {pn[1], either()}, {pn[2], plain()}}, Ret: ret},
		{Kind: "fn", Name: names[2], Params: []Param{{pn[0], inside()}, {pn[1], any()}}},
		{Kind: "prop", Name: names[3], Params: []Param{{"a", any()}}},
		{Kind: "prop", Name: names[4], Params: []Param{{"a", propT}}},
		{Kind: "sig", Name: names[5], Params: []Param{{"a", any()}}},
		{Kind: "sig", Name: names[6], Params: []Param{{pn[0], plain()}, {pn[1], any()}}},
		{Kind: "sig", Name: names[7], Params: []Param{{"a", sigT}}},
		{Kind: "prop", Name: names[8], Params: []Param{{"a", any()}}},
	}
	// declaration order is drawn (ids follow it)
	for i := len(it.Actions) - 1; i > 0; i-- {
		j := r.Intn(i + 1)
		it.Actions[i], it.Actions[j] = it.Actions[j], it.Actions[i]
	}
	p.Number()
	return p
}

// GenSequence draws a package with one interface that has several properties and signals
// (and a method or two): what a long sequence on one stub / proxy pair needs.
func GenSequence(r *hx.Rng, name string) *Package {
	g := &gen{r: r, maxD: 2}
	p := &Package{Name: name, Stream: "sequence", Steps: 28}
	ns := r.Intn(3)
	for i, sn := range pickNames(r, plainStructNames, ns) {
		s := &StructDecl{Name: sn}
		for _, fn := range pickNames(r, plainFieldNames, 1+r.Intn(3)) {
			s.Fields = append(s.Fields, Field{fn, g.typ(1)})
		}
		_ = i
		g.structs = append(g.structs, s)
	}
	p.Structs = g.structs
	it := &Iface{Name: pickNames(r, plainIfaceNames, 1)[0]}
	p.Ifaces = []*Iface{it}
	np, nsig, nfn := 2+r.Intn(3), 1+r.Intn(3), 1+r.Intn(2)
	names := pickNames(r, plainActionNames, np+nsig+nfn)
	var acts []*Action
	for k := 0; k < np; k++ {
		acts = append(acts, &Action{Kind: "prop", Name: names[k], Params: g.params(r.Pick(1, 1, 1, 1, 1, 2), true)})
	}
	for k := 0; k < nsig; k++ {
		acts = append(acts, &Action{Kind: "sig", Name: names[np+k], Params: g.params(r.Pick(1, 1, 2, 3, 0), true)})
	}
	for k := 0; k < nfn; k++ {
		a := &Action{Kind: "fn", Name: names[np+nsig+k], Params: g.params(r.Intn(3), false)}
		if r.Bool() {
			a.Ret = g.typ(0)
			for len(a.Params) == 0 && a.Ret.K == TTuple {
				a.Ret = g.typ(0)
			}
		}
		acts = append(acts, a)
	}
	// declaration order is drawn (ids follow it)
	for i := len(acts) - 1; i > 0; i-- {
		j := r.Intn(i + 1)
		acts[i], acts[j] = acts[j], acts[i]
	}
	it.Actions = acts
	p.Number()
	return p
}
