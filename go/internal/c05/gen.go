package c05

import (
	"fmt"

	"qv/internal/hx"
)

// ---------- plain stream ----------

var plainStructNames = []string{"Point", "Info", "Rec", "Box", "Pair", "Item", "Node", "Frame", "Cfg", "Entry"}
var plainFieldNames = []string{"x", "y", "z", "name", "value", "id", "data", "count", "flag", "ratio", "tags", "items", "w", "h"}
var plainParamNames = []string{"a", "b", "x", "y", "name", "id", "data", "k", "v1", "count", "pos", "arg", "n", "t", "val", "item"}
var plainActionNames = []string{"get", "put", "update", "compute", "fetch", "store", "reset", "ping", "query", "apply", "moved",
	"changed", "ready", "tick", "level", "speed", "mode", "limit", "state", "scan", "merge", "load"}
var plainIfaceNames = []string{"Alpha", "Beta", "Gamma", "Delta", "Motor", "Sensor"}

// map keys: comparable Go types
var keyScalars = []string{"int8", "uint8", "int16", "uint16", "int32", "uint32", "int64", "uint64", "bool", "str", "str", "int32"}

type gen struct {
	r       *hx.Rng
	structs []*StructDecl
	maxD    int
}

func (g *gen) scalar() *IType {
	// "any" gets a fixed share; the rest uniformly
	if g.r.Chance(0.12) {
		return Sc("any")
	}
	return Sc(ScalarNames[g.r.Intn(len(ScalarNames)-1)])
}

func (g *gen) leaf() *IType {
	if len(g.structs) > 0 && g.r.Chance(0.4) {
		return RefTo(g.structs[g.r.Intn(len(g.structs))])
	}
	return g.scalar()
}

func (g *gen) typ(depth int) *IType {
	if depth >= g.maxD || g.r.Chance(0.45) {
		return g.leaf()
	}
	switch g.r.Intn(4) {
	case 0, 1:
		return Vec(g.typ(depth + 1))
	case 2:
		return MapOf(Sc(keyScalars[g.r.Intn(len(keyScalars))]), g.typ(depth+1))
	default:
		n := 1 + g.r.Intn(3)
		m := make([]*IType, n)
		for i := range m {
			m[i] = g.typ(depth + 1)
		}
		return TupleOf(m...)
	}
}

func pickNames(r *hx.Rng, pool []string, n int) []string {
	idx := make([]int, len(pool))
	for i := range idx {
		idx[i] = i
	}
	for i := len(idx) - 1; i > 0; i-- {
		j := r.Intn(i + 1)
		idx[i], idx[j] = idx[j], idx[i]
	}
	out := make([]string, n)
	for i := range out {
		out[i] = pool[idx[i%len(pool)]]
		if i >= len(pool) {
			out[i] += fmt.Sprint(i)
		}
	}
	return out
}

// params draws n parameters; fewTuples keeps most top-level types away from Tuple<> (the
// places where a top-level tuple meets a recorded defect get a small share, not half the run).
func (g *gen) params(n int, fewTuples bool) []Param {
	names := pickNames(g.r, plainParamNames, n)
	ps := make([]Param, n)
	for i := range ps {
		t := g.typ(0)
		for fewTuples && t.K == TTuple && g.r.Chance(0.85) {
			t = g.typ(0)
		}
		ps[i] = Param{names[i], t}
	}
	return ps
}

// GenPlain draws a well-formed package without hostile identifiers: 1-3 interfaces,
// 6-10 actions, 0-3 structs (later ones may embed earlier ones).
func GenPlain(r *hx.Rng, name string) *Package {
	g := &gen{r: r, maxD: 3}
	p := &Package{Name: name, Stream: "plain"}
	ns := r.Intn(4)
	snames := pickNames(r, plainStructNames, ns)
	for i := 0; i < ns; i++ {
		s := &StructDecl{Name: snames[i]}
		nf := 1 + r.Intn(4)
		fn := pickNames(r, plainFieldNames, nf)
		for j := 0; j < nf; j++ {
			s.Fields = append(s.Fields, Field{fn[j], g.typ(1)})
		}
		g.structs = append(g.structs, s)
	}
	p.Structs = g.structs
	ni := 1 + r.Intn(3)
	total := 6 + r.Intn(5)
	inames := pickNames(r, plainIfaceNames, ni)
	anames := pickNames(r, plainActionNames, total)
	for i := 0; i < ni; i++ {
		p.Ifaces = append(p.Ifaces, &Iface{Name: inames[i]})
	}
	for k := 0; k < total; k++ {
		it := p.Ifaces[k%ni]
		a := &Action{Name: anames[k]}
		switch x := r.Intn(100); {
		case x < 55:
			a.Kind = "fn"
			a.Params = g.params(r.Intn(4), false)
			if r.Chance(0.7) {
				a.Ret = g.typ(0)
				for len(a.Params) == 0 && a.Ret.K == TTuple && r.Chance(0.85) {
					a.Ret = g.typ(0)
				}
			}
		case x < 80:
			a.Kind = "sig"
			a.Params = g.params(r.Pick(1, 1, 1, 1, 2, 3, 0), true)
		default:
			a.Kind = "prop"
			a.Params = g.params(r.Pick(1, 1, 1, 1, 1, 1, 1, 1, 1, 1, 1, 1, 1, 1, 2, 0), true)
		}
		it.Actions = append(it.Actions, a)
	}
	// object references (the shapes /repo's own IDL uses: an object of another interface of the
	// package as method result, method parameter, signal payload)
	if ni >= 2 && r.Chance(0.35) {
		addObjActions(r, g, p.Ifaces[r.Intn(ni)], p.Ifaces[r.Intn(ni)], 1+r.Intn(3))
	}
	// small packages get their share: every fifth package is cut down to one or two actions
	if r.Chance(0.2) {
		p.Ifaces = p.Ifaces[:1]
		n := 1 + r.Intn(2)
		if len(p.Ifaces[0].Actions) > n {
			p.Ifaces[0].Actions = p.Ifaces[0].Actions[:n]
		}
	}
	p.Number()
	return p
}

// addObjActions appends to interface from up to n actions that carry an object of interface to.
func addObjActions(r *hx.Rng, g *gen, from, to *Iface, n int) {
	kinds := []int{0, 1, 2}
	for i := 0; i < n && i < len(kinds); i++ {
		name := fmt.Sprintf("%s%d", []string{"make", "take", "sent"}[kinds[i]], r.Intn(90))
		switch kinds[i] {
		case 0:
			from.Actions = append(from.Actions, &Action{Kind: "fn", Name: name, Params: g.params(r.Intn(2), false), Ret: ObjOf(to)})
		case 1:
			ps := g.params(r.Intn(3), false)
			ps = append(ps, Param{"ob", ObjOf(to)})
			a := &Action{Kind: "fn", Name: name, Params: ps}
			if r.Bool() {
				a.Ret = g.scalar()
			}
			from.Actions = append(from.Actions, a)
		default:
			from.Actions = append(from.Actions, &Action{Kind: "sig", Name: name, Params: []Param{{"ob", ObjOf(to)}}})
		}
	}
}

// NonTrivial: a struct used by two actions, or a nested container somewhere.
func (p *Package) NonTrivial() bool {
	use := map[*StructDecl]int{}
	nested := false
	visit := func(t *IType, seen map[*StructDecl]bool) {
		t.Walk(func(x *IType) {
			if x.K == TRef {
				seen[x.Ref] = true
			}
			if x.K == TVec || x.K == TMap {
				for _, c := range []*IType{x.Elem, x.Val} {
					if c != nil && (c.K == TVec || c.K == TMap || c.K == TTuple) {
						nested = true
					}
				}
			}
		})
	}
	for _, s := range p.Structs {
		for _, f := range s.Fields {
			visit(f.T, map[*StructDecl]bool{})
		}
	}
	for _, it := range p.Ifaces {
		for _, a := range it.Actions {
			seen := map[*StructDecl]bool{}
			for _, x := range a.Params {
				visit(x.T, seen)
			}
			visit(a.Ret, seen)
			for s := range seen {
				use[s]++
			}
		}
	}
	for _, n := range use {
		if n >= 2 {
			return true
		}
	}
	return nested
}

// NumActions counts actions over all interfaces.
func (p *Package) NumActions() int {
	n := 0
	for _, it := range p.Ifaces {
		n += len(it.Actions)
	}
	return n
}
