package c05

import (
	"fmt"
	"go/token"
	"strings"

	"qv/internal/hx"
)

// GoKeywords: the 25 keywords of the Go specification (go/token's table).
func GoKeywords() []string {
	var ks []string
	for t := token.BREAK; t <= token.VAR; t++ {
		if t.IsKeyword() {
			ks = append(ks, t.String())
		}
	}
	return ks
}

// names the generated code itself declares or uses in a method / helper body
// (value: when a dynamic value is around; len, make: when a list or map is)
var generatedLocals = []string{"ret", "args", "resp", "err", "buf", "msg", "c", "out", "callErr", "errOut", "fmt", "bus", "basic", "nil", "value", "len", "make"}
var generatedLocalsSig = []string{"buf", "err", "len"}

// CleanVarNames: the names signature.CleanVarName renames (in the interface declarations only)
func CleanVarNames() []string { return append(GoKeywords(), "error", "string") }

// method names the generated proxy / implementor interfaces already contain
var reservedMethods = []string{"proxy", "withContext", "activate", "onTerminate", "receive", "isStatsEnabled", "stats",
	"enableStats", "clearStats", "isTraceEnabled", "enableTrace"}

// identifiers that look dangerous but are legal parameter names in every position
var benignParams = []string{"impl", "from", "true", "size", "i", "m", "s", "b", "v", "e", "ch", "name", "update", "prop", "k", "r", "w"}

// names that signature.CleanMethodName prefixes with "Do"
var cleanedMethods = []string{"call", "terminate", "property", "properties", "setProperty", "subscribe", "metaObject", "objectID", "serviceID"}

// HostileClasses: first the classes that meet a trigger of a recorded defect, then the
// classes that must work.
var HostileClasses = []string{"kw_param", "recv_param", "gen_param", "title_fields", "title_structs", "title_sigstruct",
	"iface_lower", "reserved_method", "objref_prop", "objref_struct",
	"objref", "kw_names", "title_methods", "cleaned_methods", "benign_params", "overload", "cross_iface", "dup_struct"}

func pick(r *hx.Rng, xs []string) string { return xs[r.Intn(len(xs))] }

// anyAction returns a random action satisfying ok (nil if none).
func anyAction(r *hx.Rng, p *Package, ok func(*Action) bool) (*Iface, *Action) {
	type ia struct {
		i *Iface
		a *Action
	}
	var c []ia
	for _, it := range p.Ifaces {
		for _, a := range it.Actions {
			if ok(a) {
				c = append(c, ia{it, a})
			}
		}
	}
	if len(c) == 0 {
		return nil, nil
	}
	x := c[r.Intn(len(c))]
	return x.i, x.a
}

// GenHostile: a plain package (without the shapes that fail on their own) with exactly one
// hostile identifier of the given class.
func GenHostile(r *hx.Rng, name, class string) *Package {
	var p *Package
	for {
		p = GenPlain(r, name)
		if len(Triggers(p)) == 0 && p.NumActions() >= 3 {
			break
		}
	}
	p.Stream, p.Class = "hostile", class
	g := &gen{r: r, maxD: 2, structs: p.Structs}
	it0 := p.Ifaces[0]
	addFn := func(name string, ps []Param) *Action {
		a := &Action{Kind: "fn", Name: name, Params: ps, Ret: Sc("int32")}
		it0.Actions = append(it0.Actions, a)
		return a
	}
	newStruct := func(name string, fields ...string) *StructDecl {
		s := &StructDecl{Name: name}
		for _, f := range fields {
			s.Fields = append(s.Fields, Field{f, g.scalar()})
		}
		p.Structs = append(p.Structs, s)
		return s
	}
	withParam := func(kinds string) *Action {
		_, a := anyAction(r, p, func(a *Action) bool { return strings.Contains(kinds, a.Kind) && len(a.Params) >= 1 })
		if a == nil {
			a = addFn("hz", []Param{{"a", Sc("int32")}})
		}
		return a
	}
	switch class {
	case "kw_param":
		a := withParam("fn sig prop")
		a.Params[r.Intn(len(a.Params))].Name = pick(r, CleanVarNames())
	case "recv_param":
		a := withParam("fn sig prop")
		a.Params[r.Intn(len(a.Params))].Name = "p"
	case "gen_param":
		if r.Chance(0.7) {
			a := withParam("fn")
			a.Params[r.Intn(len(a.Params))].Name = pick(r, generatedLocals)
		} else {
			a := withParam("sig prop")
			a.Params[r.Intn(len(a.Params))].Name = pick(r, generatedLocalsSig)
		}
	case "title_fields":
		s := newStruct("Hz", "foo", "Foo")
		addFn("hz", []Param{{"a", RefTo(s)}})
	case "title_structs":
		s1, s2 := newStruct("hzrec", "a"), newStruct("Hzrec", "b")
		addFn("hz", []Param{{"a", RefTo(s1)}, {"b", RefTo(s2)}})
	case "title_sigstruct":
		s := newStruct("Hzmoved", "a")
		addFn("hz", []Param{{"a", RefTo(s)}})
		it0.Actions = append(it0.Actions, &Action{Kind: "sig", Name: "hzmoved", Params: []Param{{"x", Sc("int32")}, {"y", Sc("str")}}})
	case "iface_lower":
		it := p.Ifaces[r.Intn(len(p.Ifaces))]
		it.Name = strings.ToLower(it.Name[:1]) + it.Name[1:]
	case "reserved_method":
		_, a := anyAction(r, p, func(a *Action) bool { return a.Kind == "fn" })
		if a == nil {
			a = addFn("hz", nil)
		}
		a.Name = pick(r, reservedMethods)
	case "kw_names":
		ks := GoKeywords()
		sn := pick(r, ks)
		for strings.HasPrefix(sn, "str") { // a type reference starting with a basic type's name is not accepted by the IDL parser (C18)
			sn = pick(r, ks)
		}
		s := newStruct(sn, pick(r, ks), "a")
		addFn(pick(r, ks), []Param{{"a", RefTo(s)}})
		it0.Actions = append(it0.Actions, &Action{Kind: "sig", Name: pick(r, ks), Params: []Param{{"a", RefTo(s)}}})
		it0.Actions = append(it0.Actions, &Action{Kind: "prop", Name: pick(r, ks), Params: []Param{{"a", Sc("int16")}}})
	case "title_methods":
		addFn("hzfoo", []Param{{"a", Sc("int32")}})
		addFn("Hzfoo", []Param{{"a", Sc("str")}})
		it0.Actions = append(it0.Actions, &Action{Kind: "sig", Name: "hzfoo", Params: []Param{{"a", Sc("int8")}}})
	case "cleaned_methods":
		addFn(pick(r, cleanedMethods), g.params(1, false))
	case "benign_params":
		a := withParam("fn sig prop")
		a.Params[r.Intn(len(a.Params))].Name = pick(r, benignParams)
	case "overload":
		addFn("hzover", []Param{{"a", Sc("int32")}})
		addFn("hzover", []Param{{"a", Sc("str")}, {"b", Sc("bool")}})
	case "cross_iface":
		if len(p.Ifaces) < 2 {
			p.Ifaces = append(p.Ifaces, &Iface{Name: "Omega"})
		}
		for _, it := range p.Ifaces[:2] {
			it.Actions = append(it.Actions, &Action{Kind: "sig", Name: "hzboth", Params: []Param{{"x", Sc("int32")}, {"y", Sc("str")}}})
			it.Actions = append(it.Actions, &Action{Kind: "fn", Name: "hzsame", Params: []Param{{"a", Sc("uint8")}}, Ret: Sc("uint8")})
		}
	case "dup_struct":
		s := newStruct("Hzdup", "a")
		p.Structs = append(p.Structs, &StructDecl{Name: "Hzdup", Fields: []Field{{"b", Sc("str")}, {"c", Sc("bool")}}})
		addFn("hz", []Param{{"a", RefTo(s)}})
	case "objref", "objref_prop", "objref_struct":
		// interface J (with a method and a property of its own) handed around by interface I
		j := &Iface{Name: "Hzbomb", Actions: []*Action{
			{Kind: "fn", Name: "hzarm", Params: []Param{{"a", Sc("int32")}}, Ret: Sc("int32")},
			{Kind: "prop", Name: "hzdelay", Params: []Param{{"d", g.scalar()}}},
			{Kind: "sig", Name: "hzboom", Params: []Param{{"e", Sc("str")}}}}}
		p.Ifaces = append(p.Ifaces, j)
		switch class {
		case "objref":
			it0.Actions = append(it0.Actions,
				&Action{Kind: "fn", Name: "hzmake", Ret: ObjOf(j)},
				&Action{Kind: "fn", Name: "hztake", Params: []Param{{"a", Sc("int32")}, {"b", ObjOf(j)}}, Ret: Sc("int32")},
				&Action{Kind: "sig", Name: "hzsent", Params: []Param{{"b", ObjOf(j)}}})
		case "objref_prop":
			it0.Actions = append(it0.Actions, &Action{Kind: "prop", Name: "hzcur", Params: []Param{{"b", ObjOf(j)}}})
		default:
			if r.Bool() {
				s := &StructDecl{Name: "Hzcargo", Fields: []Field{{"b", ObjOf(j)}, {"n", Sc("int32")}}}
				p.Structs = append(p.Structs, s)
				addFn("hzload", []Param{{"a", RefTo(s)}})
			} else {
				it0.Actions = append(it0.Actions, &Action{Kind: "sig", Name: "hzsent", Params: []Param{{"x", Sc("int32")}, {"b", ObjOf(j)}}})
			}
		}
	default:
		panic("unknown hostile class " + class)
	}
	p.Number()
	return p
}

func (p *Package) String() string { return fmt.Sprintf("%s/%s:%s", p.Stream, p.Class, p.Name) }
