package c05

import (
	"bufio"
	"bytes"
	"context"
	"encoding/json"
	"fmt"
	"os"
	"os/exec"
	"path/filepath"
	"strings"
	"sync"
	"time"

	"github.com/lugu/qiloop/meta/idl"
	"github.com/lugu/qiloop/meta/stub"
	"qv/internal/c05rt"
)

// Env is the scratch module (<verif>/_build/c05/mod) generated packages are built in:
// module qv with copies of internal/{hx,wg,c05rt}, replace => the tree under test.
type Env struct {
	Root, Repo string
	env        []string
}

func copyIfChanged(src, dst string) error {
	b, err := os.ReadFile(src)
	if err != nil {
		return err
	}
	if old, err := os.ReadFile(dst); err == nil && bytes.Equal(old, b) {
		return nil
	}
	if err := os.MkdirAll(filepath.Dir(dst), 0o755); err != nil {
		return err
	}
	return os.WriteFile(dst, b, 0o644)
}

// findVerifRoot: VERIF_ROOT, or the nearest ancestor of the working directory / executable
// that holds go/internal/wg/wg.go.
func findVerifRoot() (string, error) {
	if r := os.Getenv("VERIF_ROOT"); r != "" {
		return r, nil
	}
	starts := []string{}
	if wd, err := os.Getwd(); err == nil {
		starts = append(starts, wd)
	}
	if ex, err := os.Executable(); err == nil {
		starts = append(starts, filepath.Dir(ex))
	}
	for _, d := range starts {
		for ; d != "/" && d != "."; d = filepath.Dir(d) {
			if _, err := os.Stat(filepath.Join(d, "go", "internal", "wg", "wg.go")); err == nil {
				return d, nil
			}
		}
	}
	return "", fmt.Errorf("cannot locate the verification tree (set VERIF_ROOT)")
}

func NewEnv() (*Env, error) {
	vr, err := findVerifRoot()
	if err != nil {
		return nil, err
	}
	repo := os.Getenv("VERIF_REPO")
	if repo == "" {
		repo = "/repo"
	}
	repo, _ = filepath.Abs(repo)
	e := &Env{Root: filepath.Join(vr, "_build", "c05", "mod"), Repo: repo}
	for _, pk := range []string{"hx", "wg", "c05rt"} {
		fs, _ := filepath.Glob(filepath.Join(vr, "go", "internal", pk, "*.go"))
		if len(fs) == 0 {
			return nil, fmt.Errorf("no sources for internal/%s under %s", pk, vr)
		}
		for _, f := range fs {
			if strings.HasSuffix(f, "_test.go") {
				continue
			}
			if err := copyIfChanged(f, filepath.Join(e.Root, "internal", pk, filepath.Base(f))); err != nil {
				return nil, err
			}
		}
	}
	gomod := "module qv\n\ngo 1.13\n\nrequire github.com/lugu/qiloop v0.0.0\n\nreplace github.com/lugu/qiloop => " + repo + "\n"
	if old, err := os.ReadFile(filepath.Join(e.Root, "go.mod")); err != nil || string(old) != gomod {
		if err := os.WriteFile(filepath.Join(e.Root, "go.mod"), []byte(gomod), 0o644); err != nil {
			return nil, err
		}
	}
	if err := copyIfChanged(filepath.Join(repo, "go.sum"), filepath.Join(e.Root, "go.sum")); err != nil {
		return nil, err
	}
	for _, d := range []string{"pkgs", "bin", "tmp"} {
		os.RemoveAll(filepath.Join(e.Root, d))
		if err := os.MkdirAll(filepath.Join(e.Root, d), 0o755); err != nil {
			return nil, err
		}
	}
	e.env = append(os.Environ(), "GOFLAGS=-mod=mod", "GOPROXY=off", "GOSUMDB=off", "GOTOOLCHAIN=local", "CGO_ENABLED=0",
		"TMPDIR="+filepath.Join(e.Root, "tmp"))
	// compile the shared packages (and qiloop) once, before the parallel builds
	if out, err := e.gobuild(300*time.Second, "./internal/..."); err != nil {
		return nil, fmt.Errorf("scratch module does not build: %v\n%s", err, out)
	}
	return e, nil
}

func (e *Env) gobuild(d time.Duration, args ...string) (string, error) {
	ctx, cancel := context.WithTimeout(context.Background(), d)
	defer cancel()
	cmd := exec.CommandContext(ctx, "go", append([]string{"build"}, args...)...)
	cmd.Dir, cmd.Env = e.Root, e.env
	out, err := cmd.CombinedOutput()
	return string(out), err
}

// Outcome of generating, building and running one package.
type Outcome struct {
	GenErr   string // the generators returned an error or panicked: no Go file
	BuildErr string // first lines of the compiler's complaint
	RunErr   string // driver did not finish
	Records  []c05rt.Record
	Dir      string
}

var genMu sync.Mutex // the generators keep state in package variables

// Generate runs the real parser and stub+proxy generator in-process.
func Generate(text, importPath string) (src []byte, err error) {
	genMu.Lock()
	defer genMu.Unlock()
	defer func() {
		if e := recover(); e != nil {
			src, err = nil, fmt.Errorf("generator panic: %v", e)
		}
	}()
	pkg, err := idl.ParsePackage([]byte(text))
	if err != nil {
		return nil, fmt.Errorf("idl-parse: %v", err)
	}
	if len(pkg.Types) == 0 {
		return nil, fmt.Errorf("idl-parse: no type")
	}
	var buf bytes.Buffer
	if err := stub.GeneratePackage(&buf, importPath, pkg); err != nil {
		return nil, err
	}
	return buf.Bytes(), nil
}

func firstLines(s string, n int) string {
	ls := strings.Split(strings.TrimSpace(s), "\n")
	if len(ls) > n {
		ls = ls[:n]
	}
	return strings.Join(ls, "\n")
}

// Run generates, builds and runs package p under the directory name id.  compileOnly
// stops after building the generated package (no implementor, no driver).
func (e *Env) Run(id string, p *Package, seed uint64, maxLen int, compileOnly bool) (o Outcome) {
	dir := filepath.Join(e.Root, "pkgs", id)
	o.Dir = dir
	imp := "qv/pkgs/" + id + "/" + p.Name
	os.MkdirAll(filepath.Join(dir, p.Name), 0o755)
	os.WriteFile(filepath.Join(dir, "package.idl"), []byte(p.Text()), 0o644)
	src, err := Generate(p.Text(), p.GenPath)
	if err != nil {
		o.GenErr = firstLines(err.Error(), 2)
		return o
	}
	os.WriteFile(filepath.Join(dir, p.Name, "pk_gen.go"), src, 0o644)
	if compileOnly {
		if out, err := e.gobuild(120*time.Second, "./pkgs/"+id+"/"+p.Name); err != nil {
			o.BuildErr = firstLines(out, 4)
		}
		return o
	}
	impl, drv, err := Scaffold(p, src, imp)
	if err != nil {
		// the generated file cannot be scaffolded: let the compiler say why
		out, berr := e.gobuild(120*time.Second, "./pkgs/"+id+"/"+p.Name)
		if berr != nil {
			o.BuildErr = firstLines(out, 4)
		} else {
			o.BuildErr = "scaffold: " + err.Error()
		}
		return o
	}
	os.WriteFile(filepath.Join(dir, p.Name, "zz_impl.go"), []byte(impl), 0o644)
	os.WriteFile(filepath.Join(dir, "main.go"), []byte(drv), 0o644)
	bin := filepath.Join(e.Root, "bin", id)
	if out, err := e.gobuild(180*time.Second, "-o", bin, "./pkgs/"+id); err != nil {
		o.BuildErr = firstLines(out, 4)
		return o
	}
	defer os.Remove(bin)
	ctx, cancel := context.WithTimeout(context.Background(), 60*time.Second)
	defer cancel()
	dyn := ""
	if p.Dyn {
		dyn = "dyn"
	}
	cmd := exec.CommandContext(ctx, bin, fmt.Sprint(seed), fmt.Sprint(maxLen), p.Sizes, fmt.Sprint(p.Steps), dyn)
	cmd.Env, cmd.Dir = e.env, dir
	var stderr bytes.Buffer
	cmd.Stderr = &stderr
	out, err := cmd.Output()
	sc := bufio.NewScanner(bytes.NewReader(out))
	sc.Buffer(make([]byte, 1<<20), 64<<20)
	done := false
	for sc.Scan() {
		var r c05rt.Record
		if json.Unmarshal(sc.Bytes(), &r) != nil {
			continue
		}
		switch r.Kind {
		case "done":
			done = true
		case "fatal":
			o.RunErr = r.Err
		default:
			o.Records = append(o.Records, r)
		}
	}
	if !done && o.RunErr == "" {
		o.RunErr = fmt.Sprintf("driver ended early (%v): %s", err, firstLines(stderr.String(), 6))
	}
	return o
}
