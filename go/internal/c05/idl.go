// Package c05: IDL package generator (idlgen), scaffolding of the generated Go package
// (implementor + driver) and the scratch module the generated packages are built in.
package c05

import (
	"fmt"
	"strings"

	"qv/internal/wg"
)

type TK int

const (
	TScalar TK = iota
	TVec
	TMap
	TTuple
	TRef
	TObj // reference to an object of an interface of the package
)

// IType is an IDL type expression.
type IType struct {
	K      TK
	Scalar string // IDL spelling: int8 ... str, any
	Elem   *IType
	Key    *IType
	Val    *IType
	Mem    []*IType
	Ref    *StructDecl
	Obj    *Iface
}

type Field struct {
	Name string
	T    *IType
}
type StructDecl struct {
	Name   string
	Fields []Field
}
type Param struct {
	Name string
	T    *IType
}

// Action is a method ("fn"), signal ("sig") or property ("prop").
type Action struct {
	Kind   string
	Name   string
	Params []Param
	Ret    *IType // methods only; nil = no return value
	ID     uint32 // as the IDL parser numbers it: 100 + position in the interface
}
type Iface struct {
	Name    string
	Actions []*Action
}

type Package struct {
	Name    string
	GenPath string // package path handed to the generators ("" = the tool's default)
	Structs []*StructDecl
	Ifaces  []*Iface
	Stream  string // "plain" | "hostile"
	Class   string // identifier class used by the hostile stream ("" for plain)
	Sizes   string // driver: container sizes of the additional passes, comma-separated ("" = none)
	Steps   int    // driver: length of the sequence run on every stub / proxy pair (0 = none)
	Dyn     bool   // driver: every action with a dynamic value is repeated once per kind of dynamic value
}

var scalarLetter = map[string]string{"int8": "c", "uint8": "C", "int16": "w", "uint16": "W", "int32": "i", "uint32": "I",
	"int64": "l", "uint64": "L", "float32": "f", "float64": "d", "bool": "b", "str": "s", "any": "m", "obj": "o"}

// ScalarNames in a fixed order (generation draws from it).
var ScalarNames = []string{"int8", "uint8", "int16", "uint16", "int32", "uint32", "int64", "uint64", "float32", "float64", "bool", "str", "any"}

func Sc(name string) *IType      { return &IType{K: TScalar, Scalar: name} }
func Vec(e *IType) *IType        { return &IType{K: TVec, Elem: e} }
func MapOf(k, v *IType) *IType   { return &IType{K: TMap, Key: k, Val: v} }
func TupleOf(m ...*IType) *IType { return &IType{K: TTuple, Mem: m} }
func RefTo(s *StructDecl) *IType { return &IType{K: TRef, Ref: s} }

func ObjOf(it *Iface) *IType { return &IType{K: TObj, Obj: it} }

// IDL prints the type the way meta/idl/parser.go reads it.
func (t *IType) IDL() string {
	switch t.K {
	case TScalar:
		return t.Scalar
	case TVec:
		return "Vec<" + t.Elem.IDL() + ">"
	case TMap:
		return "Map<" + t.Key.IDL() + "," + t.Val.IDL() + ">"
	case TTuple:
		it := make([]string, len(t.Mem))
		for i, m := range t.Mem {
			it[i] = m.IDL()
		}
		return "Tuple<" + strings.Join(it, ",") + ">"
	case TObj:
		return t.Obj.Name
	}
	return t.Ref.Name
}

// Ty is the signature-level type (what goes over the wire).
func (t *IType) Ty() *wg.Ty {
	switch t.K {
	case TScalar:
		return wg.Scalar(scalarLetter[t.Scalar])
	case TVec:
		return wg.List(t.Elem.Ty())
	case TMap:
		return wg.Map(t.Key.Ty(), t.Val.Ty())
	case TTuple:
		m := make([]*wg.Ty, len(t.Mem))
		for i, x := range t.Mem {
			m[i] = x.Ty()
		}
		return wg.Tuple(m...)
	case TObj:
		// an object reference; Name says which interface (the driver needs a live object)
		return &wg.Ty{K: wg.KScalar, S: "o", Name: t.Obj.Name}
	}
	return t.Ref.Ty()
}

func (s *StructDecl) Ty() *wg.Ty {
	m := make([]*wg.Ty, len(s.Fields))
	f := make([]string, len(s.Fields))
	for i, x := range s.Fields {
		m[i], f[i] = x.T.Ty(), x.Name
	}
	return wg.Struct(s.Name, f, m...)
}

// PayloadTy: the type of a signal / property payload as the generators see it
// (Signal.Type / Property.Type): the parameter itself when there is exactly one, else a
// structure named after the action.
func (a *Action) PayloadTy() *wg.Ty {
	if len(a.Params) == 1 {
		return a.Params[0].T.Ty()
	}
	m := make([]*wg.Ty, len(a.Params))
	f := make([]string, len(a.Params))
	for i, p := range a.Params {
		m[i], f[i] = p.T.Ty(), p.Name
	}
	return wg.Struct(a.Name, f, m...)
}

// Walk visits every type node of the expression.
func (t *IType) Walk(f func(*IType)) {
	if t == nil {
		return
	}
	f(t)
	switch t.K {
	case TVec:
		t.Elem.Walk(f)
	case TMap:
		t.Key.Walk(f)
		t.Val.Walk(f)
	case TTuple:
		for _, m := range t.Mem {
			m.Walk(f)
		}
	}
}

// MentionsObj: an object reference occurs in the type expression.
func (t *IType) MentionsObj() bool {
	r := false
	t.Walk(func(x *IType) { r = r || x.K == TObj })
	return r
}

// Text is the IDL file.
func (p *Package) Text() string {
	var b strings.Builder
	fmt.Fprintf(&b, "package %s\n", p.Name)
	for _, s := range p.Structs {
		fmt.Fprintf(&b, "struct %s\n", s.Name)
		for _, f := range s.Fields {
			fmt.Fprintf(&b, "\t%s: %s\n", f.Name, f.T.IDL())
		}
		b.WriteString("end\n")
	}
	for _, it := range p.Ifaces {
		fmt.Fprintf(&b, "interface %s\n", it.Name)
		for _, a := range it.Actions {
			ps := make([]string, len(a.Params))
			for i, x := range a.Params {
				ps[i] = x.Name + ": " + x.T.IDL()
			}
			fmt.Fprintf(&b, "\t%s %s(%s)", a.Kind, a.Name, strings.Join(ps, ", "))
			if a.Kind == "fn" && a.Ret != nil {
				b.WriteString(" -> " + a.Ret.IDL())
			}
			b.WriteString("\n")
		}
		b.WriteString("end\n")
	}
	return b.String()
}

// Number assigns action ids the way nodifyActionList does (100, 101, ... per interface).
func (p *Package) Number() {
	for _, it := range p.Ifaces {
		for i, a := range it.Actions {
			a.ID = uint32(100 + i)
		}
	}
}

// Clone is a deep copy (struct references are re-pointed at the copies).
func (p *Package) Clone() *Package {
	q := &Package{Name: p.Name, GenPath: p.GenPath, Stream: p.Stream, Class: p.Class, Sizes: p.Sizes, Steps: p.Steps, Dyn: p.Dyn}
	m := map[*StructDecl]*StructDecl{}
	for _, s := range p.Structs {
		c := &StructDecl{Name: s.Name}
		m[s] = c
		q.Structs = append(q.Structs, c)
	}
	mi := map[*Iface]*Iface{}
	for _, it := range p.Ifaces {
		ci := &Iface{Name: it.Name}
		mi[it] = ci
		q.Ifaces = append(q.Ifaces, ci)
	}
	var ct func(t *IType) *IType
	ct = func(t *IType) *IType {
		if t == nil {
			return nil
		}
		c := &IType{K: t.K, Scalar: t.Scalar, Elem: ct(t.Elem), Key: ct(t.Key), Val: ct(t.Val)}
		for _, x := range t.Mem {
			c.Mem = append(c.Mem, ct(x))
		}
		if t.Ref != nil {
			c.Ref = m[t.Ref]
		}
		if t.Obj != nil {
			c.Obj = mi[t.Obj]
		}
		return c
	}
	for i, s := range p.Structs {
		for _, f := range s.Fields {
			q.Structs[i].Fields = append(q.Structs[i].Fields, Field{f.Name, ct(f.T)})
		}
	}
	for _, it := range p.Ifaces {
		ci := mi[it]
		for _, a := range it.Actions {
			ca := &Action{Kind: a.Kind, Name: a.Name, Ret: ct(a.Ret), ID: a.ID}
			for _, x := range a.Params {
				ca.Params = append(ca.Params, Param{x.Name, ct(x.T)})
			}
			ci.Actions = append(ci.Actions, ca)
		}
	}
	return q
}
