package c05

import (
	"fmt"
	"regexp"
	"strings"
)

// Trigger: a place of a package that meets the trigger predicate of a recorded defect of the
// generators (KNOWN_FINDINGS.txt key), with the edit that removes it.
type Trigger struct {
	Key    string
	What   string
	repair func()
}

var nonIdent = regexp.MustCompile(`[^_a-zA-Z0-9]+`)

// cleanName is signature.CleanName: drop funny characters, title-case.
func cleanName(s string) string { return strings.Title(nonIdent.ReplaceAllString(s, "")) }

func inList(x string, l []string) bool {
	for _, y := range l {
		if x == y {
			return true
		}
	}
	return false
}

// the templates refer to package basic in two ways: through jen.Qual (which makes jennifer
// import it) and as literal text (which does not).
func marshalQualBasic(t *IType) bool {
	switch t.K {
	case TScalar:
		return t.Scalar != "str" && t.Scalar != "any"
	case TVec, TMap:
		return true
	case TTuple:
		for _, m := range t.Mem {
			if marshalQualBasic(m) {
				return true
			}
		}
	}
	return false
}
func unmarshalQualBasic(t *IType) bool {
	switch t.K {
	case TScalar:
		return t.Scalar != "any"
	case TVec:
		return unmarshalQualBasic(t.Elem)
	case TMap:
		return unmarshalQualBasic(t.Key) || unmarshalQualBasic(t.Val)
	case TTuple:
		for _, m := range t.Mem {
			if unmarshalQualBasic(m) {
				return true
			}
		}
	}
	return false
}
func marshalTextBasic(t *IType) bool {
	r := false
	t.Walk(func(x *IType) { r = r || (x.K == TScalar && x.Scalar == "str") })
	return r
}
func unmarshalTextBasic(t *IType) bool {
	r := false
	t.Walk(func(x *IType) { r = r || x.K == TVec || x.K == TMap })
	return r
}

// basicImportMissing: the generated file mentions basic.X only as literal text.
func basicImportMissing(p *Package) bool {
	qual, text := false, false
	m := func(t *IType) { qual = qual || marshalQualBasic(t); text = text || marshalTextBasic(t) }
	u := func(t *IType) { qual = qual || unmarshalQualBasic(t); text = text || unmarshalTextBasic(t) }
	for _, s := range p.Structs {
		for _, f := range s.Fields {
			m(f.T)
			u(f.T)
		}
	}
	for _, it := range p.Ifaces {
		for _, a := range it.Actions {
			switch a.Kind {
			case "fn":
				for _, x := range a.Params {
					u(x.T)
				}
				if a.Ret != nil {
					m(a.Ret)
				}
			case "sig", "prop":
				// helper / setter marshal, subscriber / getter / change callback unmarshal; with
				// several parameters the same through the structure declared for the payload
				if a.Kind == "prop" {
					text = true // the generated getter reads the signature with basic.ReadString, as text
				}
				for _, x := range a.Params {
					m(x.T)
					u(x.T)
				}
			}
		}
	}
	return text && !qual
}

func isAny(t *IType) bool { return t.K == TScalar && t.Scalar == "any" }

// mentionsAny: a dynamic value occurs in the type expression itself (not through a struct).
func mentionsAny(t *IType) bool {
	r := false
	t.Walk(func(x *IType) { r = r || isAny(x) })
	return r
}

// anyMember: a dynamic value is a direct member of a tuple or a field of a struct somewhere
// in the type (the reflection decoder cannot fill an interface-typed struct field).
func anyMember(t *IType, seen map[*StructDecl]bool) bool {
	switch t.K {
	case TVec:
		return anyMember(t.Elem, seen)
	case TMap:
		return anyMember(t.Val, seen)
	case TTuple:
		for _, m := range t.Mem {
			if isAny(m) || anyMember(m, seen) {
				return true
			}
		}
	case TRef:
		if seen[t.Ref] {
			return false
		}
		seen[t.Ref] = true
		for _, f := range t.Ref.Fields {
			if isAny(f.T) || anyMember(f.T, seen) {
				return true
			}
		}
	}
	return false
}

// dropAnyMembers replaces the dynamic values anyMember finds by strings.
func dropAnyMembers(t *IType, seen map[*StructDecl]bool) {
	switch t.K {
	case TVec:
		dropAnyMembers(t.Elem, seen)
	case TMap:
		dropAnyMembers(t.Val, seen)
	case TTuple:
		for i, m := range t.Mem {
			if isAny(m) {
				t.Mem[i] = Sc("str")
			} else {
				dropAnyMembers(m, seen)
			}
		}
	case TRef:
		if seen[t.Ref] {
			return
		}
		seen[t.Ref] = true
		for i, f := range t.Ref.Fields {
			if isAny(f.T) {
				t.Ref.Fields[i].T = Sc("str")
			} else {
				dropAnyMembers(f.T, seen)
			}
		}
	}
}

// Triggers lists the places of p that meet a recorded trigger predicate.
func Triggers(p *Package) []Trigger {
	var ts []Trigger
	add := func(key, what string, repair func()) { ts = append(ts, Trigger{key, what, repair}) }
	kws := CleanVarNames()
	if basicImportMissing(p) {
		add("import_basic_missing", "package basic is referred to only through literal template text", func() {
			it := p.Ifaces[0]
			it.Actions = append(it.Actions, &Action{Kind: "fn", Name: "zzimport", Params: []Param{{"a", Sc("int32")}}})
		})
	}
	for _, it := range p.Ifaces {
		it := it
		if c := it.Name[0]; c >= 'a' && c <= 'z' {
			add("iface_name_lowercase", "interface "+it.Name, func() { it.Name = strings.ToUpper(it.Name[:1]) + it.Name[1:] })
		}
		for ai, a := range it.Actions {
			a, ai := a, ai
			where := fmt.Sprintf("%s %s.%s", a.Kind, it.Name, a.Name)
			if a.Kind == "prop" && len(a.Params) != 1 {
				add("prop_param_count", fmt.Sprintf("%s has %d parameters", where, len(a.Params)), func() {
					if len(a.Params) == 0 {
						a.Params = []Param{{"a", Sc("int32")}}
					} else {
						a.Params = a.Params[:1]
					}
				})
			}
			if a.Kind == "fn" && a.Ret != nil && a.Ret.K == TTuple && len(a.Params) == 0 {
				add("tuple_marshal_err_scope", where+" returns a tuple and has no parameter", func() { a.Ret = Vec(a.Ret) })
			}
			if a.Kind == "fn" && a.Ret != nil && anyMember(a.Ret, map[*StructDecl]bool{}) {
				add("result_any_member", where+" returns a structure or tuple with a dynamic value as member", func() {
					dropAnyMembers(a.Ret, map[*StructDecl]bool{})
				})
			}
			if a.Kind == "prop" && len(a.Params) == 1 && isAny(a.Params[0].T) {
				add("prop_any_roundtrip", where+" is of type any", func() { a.Params[0].T = Sc("str") })
			}
			if a.Kind == "prop" && len(a.Params) == 1 && mentionsAny(a.Params[0].T) {
				add("prop_any_value_shadow", where+" has a dynamic value in its type expression", func() {
					a.Params[0].T.Walk(func(x *IType) {
						if isAny(x) {
							x.Scalar = "str"
						}
					})
				})
			}
			if a.Kind == "fn" && inList(a.Name, reservedMethods) {
				add("method_reserved_name", where, func() { a.Name = fmt.Sprintf("zzm%d", ai) })
			}
			for i := range a.Params {
				i := i
				x := &a.Params[i]
				rename := func() { a.Params[i].Name = fmt.Sprintf("zzp%d", i) }
				if a.Kind != "fn" && x.T.K == TTuple {
					add("tuple_marshal_err_scope", where+" has a tuple parameter", func() { a.Params[i].T = Vec(a.Params[i].T) })
				}
				switch {
				case inList(x.Name, kws):
					add("ident_keyword_raw", where+" parameter "+x.Name, rename)
				case x.Name == "p":
					add("ident_receiver_shadow", where+" parameter p", rename)
				case a.Kind == "fn" && inList(x.Name, generatedLocals), a.Kind != "fn" && inList(x.Name, generatedLocalsSig):
					add("ident_generated_collision", where+" parameter "+x.Name, rename)
				}
			}
		}
	}
	// a method with the name and the parameter types of one of the generic object methods
	generic := map[string]string{"property": "any", "setProperty": "any,any", "properties": "", "terminate": "uint32", "metaObject": "uint32"}
	for _, it := range p.Ifaces {
		for ai, a := range it.Actions {
			a, ai := a, ai
			if want, ok := generic[a.Name]; ok && a.Kind == "fn" {
				var ts []string
				for _, x := range a.Params {
					ts = append(ts, x.T.IDL())
				}
				if strings.Join(ts, ",") == want {
					add("method_shadows_generic", fmt.Sprintf("fn %s.%s(%s)", it.Name, a.Name, want), func() { a.Name = fmt.Sprintf("zzg%d", ai) })
				}
			}
		}
	}
	// a reference to an interface whose name is not title-cased
	lower := map[*Iface]bool{}
	note := func(t *IType) {
		t.Walk(func(x *IType) {
			if x.K == TObj {
				if c := x.Obj.Name[0]; c >= 'a' && c <= 'z' && !lower[x.Obj] {
					lower[x.Obj] = true
					o := x.Obj
					add("objref_lowercase_iface", "reference to interface "+o.Name, func() { o.Name = strings.ToUpper(o.Name[:1]) + o.Name[1:] })
				}
			}
		})
	}
	for _, s := range p.Structs {
		for _, f := range s.Fields {
			note(f.T)
		}
	}
	for _, it := range p.Ifaces {
		for _, a := range it.Actions {
			for _, x := range a.Params {
				note(x.T)
			}
			note(a.Ret)
		}
	}
	// object references outside the places the templates support
	dropObj := func(t *IType) func() {
		return func() {
			t.Walk(func(x *IType) {
				if x.K == TObj {
					x.K, x.Scalar, x.Obj = TScalar, "int32", nil
				}
			})
		}
	}
	for _, s := range p.Structs {
		for _, f := range s.Fields {
			if f.T.MentionsObj() {
				add("objref_in_struct", "field "+f.Name+" of struct "+s.Name+" is an object", dropObj(f.T))
			}
		}
	}
	for _, it := range p.Ifaces {
		for _, a := range it.Actions {
			for _, x := range a.Params {
				where := fmt.Sprintf("%s %s.%s parameter %s", a.Kind, it.Name, a.Name, x.Name)
				switch {
				case a.Kind == "prop" && x.T.MentionsObj():
					add("objref_property", where+" is an object", dropObj(x.T))
				case a.Kind == "sig" && len(a.Params) != 1 && x.T.MentionsObj():
					add("objref_in_struct", where+" is an object in a multi-parameter signal", dropObj(x.T))
				case a.Kind == "fn" && x.T.K == TScalar && x.T.Scalar == "obj":
					t := x.T
					add("obj_plain_param", where+" is a plain obj", func() { t.Scalar = "int32" })
				}
			}
		}
	}
	// names that become equal after title-casing
	titles := map[string]string{}
	for si, s := range p.Structs {
		s, si := s, si
		if o, ok := titles[cleanName(s.Name)]; ok && o != s.Name {
			add("ident_title_collision", "structs "+o+" and "+s.Name, func() { s.Name = fmt.Sprintf("%sZz%d", s.Name, si) })
		}
		titles[cleanName(s.Name)] = s.Name
		ft := map[string]bool{}
		for fi := range s.Fields {
			fi := fi
			if ft[cleanName(s.Fields[fi].Name)] {
				add("ident_title_collision", "fields of "+s.Name+" around "+s.Fields[fi].Name, func() { s.Fields[fi].Name = fmt.Sprintf("zzf%d", fi) })
			}
			ft[cleanName(s.Fields[fi].Name)] = true
		}
	}
	for _, it := range p.Ifaces {
		for ai, a := range it.Actions {
			a, ai := a, ai
			if a.Kind != "fn" && len(a.Params) != 1 {
				if o, ok := titles[cleanName(a.Name)]; ok && o != a.Name {
					add("ident_title_collision", a.Kind+" "+a.Name+" and struct "+o, func() { a.Name = fmt.Sprintf("zzs%d", ai) })
				}
			}
		}
	}
	return ts
}

// Repair returns a copy of p in which every trigger place has been edited away.
func Repair(p *Package) *Package {
	q := p.Clone()
	for i := 0; i < 4; i++ { // an edit may uncover another trigger (e.g. the import one)
		ts := Triggers(q)
		if len(ts) == 0 {
			break
		}
		for _, t := range ts {
			t.repair()
		}
	}
	q.Number()
	return q
}
