// Package rig: harness-owned streams and listener for driving bus servers and clients
// through forced schedules.  A link is one direction of a connection: a byte stream made of
// the buffers of the Write calls in the order the harness let them through.  Frames are what
// a reader finds in that stream (header, then Size bytes of payload); when every frame is
// written by one Write call (what Message.Write does in the pinned tree) a frame and a Write
// call are the same thing, but nothing here relies on it: a Write call that carries only part
// of a frame is a fragment, and the harness decides what goes between two fragments.  A valve
// can hold frames back (the writer is not blocked), and a writer can be blocked inside Write
// until the harness releases it.
package rig

import (
	"bytes"
	"context"
	"encoding/binary"
	"fmt"
	"io"
	"sync"
	"time"

	"github.com/lugu/qiloop/bus/net"
)

// Frame is one frame seen on a link.
type Frame struct {
	Hdr     net.Header
	Payload []byte
	Seq     int  // global sequence number (order in which frames were completed over all links of a Net)
	Head    bool // the buffer starts with a frame header (magic number present)
	Frag    bool // the buffer is not exactly one whole frame: part of a frame, or bytes a reader cannot parse
}

func (f Frame) String() string {
	p := fmt.Sprintf("%x", f.Payload)
	if len(f.Payload) > 24 {
		p = fmt.Sprintf("%x...(%d bytes)", f.Payload[:16], len(f.Payload))
	}
	if !f.Head {
		return fmt.Sprintf("{%d bytes that do not start with a header: %s}", len(f.Payload), p)
	}
	s := fmt.Sprintf("{t%d s%d o%d a%d id%d %s}", f.Hdr.Type, f.Hdr.Service, f.Hdr.Object, f.Hdr.Action, f.Hdr.ID, p)
	if f.Frag {
		s = fmt.Sprintf("{header t%d s%d o%d a%d id%d size %d followed by %d bytes}", f.Hdr.Type, f.Hdr.Service, f.Hdr.Object, f.Hdr.Action, f.Hdr.ID, f.Hdr.Size, len(f.Payload))
	}
	return s
}

type blockedWriter struct {
	f   Frame
	rel chan struct{}
}

// Link is one direction of a connection.
type Link struct {
	Name string
	net  *Net
	mu   sync.Mutex
	cond *sync.Cond
	// bytes written and held back by the valve
	pbuf []byte
	// bytes available to the reader, and the boundaries of the released units inside them
	avail    []byte
	lens     []int
	consumed int
	nread    int // released units (frames) completely read by the other end
	waiting  int // readers parked in read with nothing available
	paused   bool
	closed   bool
	// the stream as a reader sees it: complete frames, in order; wbuf = bytes after the last complete frame
	log    []Frame
	wbuf   []byte
	desync bool // the bytes after the last logged frame do not start with a header: no reader can go on
	nwrite int  // Write calls that went through
	// PauseIf: when a written frame matches, the valve closes before that frame is delivered.
	PauseIf func(f Frame) bool
	// BlockIf: when a buffer to be written matches, the writer blocks until Release; its bytes
	// join the stream (and are delivered or parked) only after the release.
	BlockIf func(f Frame) bool
	// BlockFrag: a Write call whose buffer does not start with a header (the rest of a frame whose
	// beginning went out with an earlier Write call) blocks until Release.
	BlockFrag bool
	blocked   []*blockedWriter
	// FailIf: when it returns an error for a buffer to be written, that Write call fails with this error
	// and writes nothing; the link stays open (a peer that is half dead: EPIPE, reset, io.EOF ...).
	// Asked before BlockIf.
	FailIf func(f Frame) error
	nfail  int
}

// Parse splits a written buffer into header and payload (also for headers Header.Read refuses).
// Head: the buffer starts with the magic number; Frag: it is not exactly one whole frame.
func Parse(p []byte) (Frame, bool) {
	if len(p) < net.HeaderSize {
		return Frame{Payload: append([]byte(nil), p...), Frag: true}, false
	}
	f := parse(p)
	f.Payload = append([]byte(nil), f.Payload...)
	return f, true
}

// parse: like Parse for len(p) >= HeaderSize, the payload aliases p.
func parse(p []byte) Frame {
	var h net.Header
	if err := h.Read(bytes.NewReader(p[:net.HeaderSize])); err != nil {
		h.Magic = binary.BigEndian.Uint32(p[0:4])
		h.ID = binary.LittleEndian.Uint32(p[4:8])
		h.Size = binary.LittleEndian.Uint32(p[8:12])
		h.Version = binary.LittleEndian.Uint16(p[12:14])
		h.Type, h.Flags = p[14], p[15]
		h.Service = binary.LittleEndian.Uint32(p[16:20])
		h.Object = binary.LittleEndian.Uint32(p[20:24])
		h.Action = binary.LittleEndian.Uint32(p[24:28])
	}
	f := Frame{Hdr: h, Payload: p[net.HeaderSize:]}
	f.Head = h.Magic == net.Magic
	f.Frag = !f.Head || uint64(h.Size) != uint64(len(p)-net.HeaderSize)
	return f
}

// next: the first frame a reader finds in buf and the number of bytes it occupies.  ok = false: buf
// ends inside a frame.  Bytes that do not start with a header are returned as one unparsable unit.
func next(buf []byte) (f Frame, n int, ok bool) {
	if len(buf) < net.HeaderSize {
		return Frame{}, 0, false
	}
	h := parse(buf[:net.HeaderSize])
	if !h.Head || h.Hdr.Size > net.MaxPayloadSize {
		return Frame{Hdr: h.Hdr, Payload: buf, Frag: true}, len(buf), true
	}
	n = net.HeaderSize + int(h.Hdr.Size)
	if len(buf) < n {
		return Frame{}, 0, false
	}
	return parse(buf[:n]), n, true
}

func (l *Link) write(p []byte) (int, error) {
	f, ok := Parse(p)
	l.mu.Lock()
	if l.closed {
		l.mu.Unlock()
		return 0, io.ErrClosedPipe
	}
	if l.FailIf != nil {
		if err := l.FailIf(f); err != nil {
			l.nfail++
			l.mu.Unlock()
			l.net.notify()
			return 0, err
		}
	}
	if (ok && l.BlockIf != nil && l.BlockIf(f)) || (l.BlockFrag && !f.Head) {
		bw := &blockedWriter{f: f, rel: make(chan struct{})}
		l.blocked = append(l.blocked, bw)
		l.mu.Unlock()
		l.net.notify()
		<-bw.rel
		l.mu.Lock()
		if l.closed {
			l.mu.Unlock()
			return 0, io.ErrClosedPipe
		}
	}
	b := append([]byte(nil), p...)
	l.nwrite++
	// the stream: frames completed by these bytes
	l.wbuf = append(l.wbuf, b...)
	for !l.desync {
		g, n, ok := next(l.wbuf)
		if !ok {
			break
		}
		g.Payload = append([]byte(nil), g.Payload...)
		l.net.seqMu.Lock()
		l.net.seq++
		g.Seq = l.net.seq
		l.net.seqMu.Unlock()
		l.log = append(l.log, g)
		l.wbuf = l.wbuf[n:]
		if g.Frag {
			l.desync = true
		}
	}
	if ok && !l.paused && l.PauseIf != nil && l.PauseIf(f) {
		l.paused = true
	}
	if l.paused {
		l.pbuf = append(l.pbuf, b...)
	} else {
		l.avail = append(l.avail, b...)
		l.lens = append(l.lens, len(b))
	}
	l.cond.Broadcast()
	l.mu.Unlock()
	l.net.notify()
	return len(p), nil
}

// Blocked returns the buffers of the writers currently blocked in Write.
func (l *Link) Blocked() []Frame {
	l.mu.Lock()
	defer l.mu.Unlock()
	var fs []Frame
	for _, b := range l.blocked {
		fs = append(fs, b.f)
	}
	return fs
}

// Release lets the first blocked writer whose buffer matches continue.
func (l *Link) Release(match func(Frame) bool) bool {
	l.mu.Lock()
	defer l.mu.Unlock()
	for i, b := range l.blocked {
		if match == nil || match(b.f) {
			l.blocked = append(l.blocked[:i], l.blocked[i+1:]...)
			close(b.rel)
			return true
		}
	}
	return false
}

// Pause closes the valve.
func (l *Link) Pause() { l.mu.Lock(); l.paused = true; l.mu.Unlock() }

// Resume opens the valve and delivers the parked bytes.
func (l *Link) Resume() {
	l.mu.Lock()
	l.paused = false
	if len(l.pbuf) > 0 {
		l.avail = append(l.avail, l.pbuf...)
		l.lens = append(l.lens, len(l.pbuf))
	}
	l.pbuf = nil
	l.cond.Broadcast()
	l.mu.Unlock()
}

// Parked returns the frames held back by the valve, as the reader will find them: complete frames only
// (bytes that end inside a frame are not listed until the rest has been written); bytes that do
// not start with a header are listed as one unparsable unit (Frag set, Head not set).
func (l *Link) Parked() []Frame {
	l.mu.Lock()
	defer l.mu.Unlock()
	var fs []Frame
	buf := l.pbuf
	for {
		f, n, ok := next(buf)
		if !ok {
			return fs
		}
		fs = append(fs, f)
		buf = buf[n:]
	}
}

// ReleaseOne delivers the first parked frame and keeps the valve closed.
func (l *Link) ReleaseOne() (Frame, bool) {
	l.mu.Lock()
	defer l.mu.Unlock()
	f, n, ok := next(l.pbuf)
	if !ok {
		return Frame{}, false
	}
	f.Payload = append([]byte(nil), f.Payload...)
	l.avail = append(l.avail, l.pbuf[:n]...)
	l.lens = append(l.lens, n)
	l.pbuf = l.pbuf[n:]
	l.cond.Broadcast()
	return f, true
}

func (l *Link) read(p []byte) (int, error) {
	l.mu.Lock()
	defer l.mu.Unlock()
	for len(l.avail) == 0 && !l.closed {
		l.waiting++
		l.net.notify()
		l.cond.Wait()
		l.waiting--
	}
	if len(l.avail) == 0 {
		return 0, io.EOF
	}
	n := copy(p, l.avail)
	l.avail = l.avail[n:]
	l.consumed += n
	for len(l.lens) > 0 && l.consumed >= l.lens[0] {
		l.consumed -= l.lens[0]
		l.lens = l.lens[1:]
		l.nread++
	}
	return n, nil
}

func (l *Link) close() {
	l.mu.Lock()
	if !l.closed {
		l.closed = true
		for _, b := range l.blocked {
			close(b.rel)
		}
		l.blocked = nil
	}
	l.cond.Broadcast()
	l.mu.Unlock()
}

// Closed reports whether either end closed the connection.
func (l *Link) Closed() bool { l.mu.Lock(); defer l.mu.Unlock(); return l.closed }

// Read reports how many frames the other end has completely read.
func (l *Link) Read() int { l.mu.Lock(); defer l.mu.Unlock(); return l.nread }

// Idle reports that the other end is parked in Read at a frame boundary with nothing left to read and
// nothing held back by the valve: whatever it does with a frame between two Read calls (an endpoint
// dispatches it) has been done for every frame written so far.
func (l *Link) Idle() bool {
	l.mu.Lock()
	defer l.mu.Unlock()
	return l.waiting > 0 && len(l.avail) == 0 && len(l.pbuf) == 0 && l.consumed == 0 && len(l.blocked) == 0
}

// Failed reports how many Write calls were refused by FailIf.
func (l *Link) Failed() int { l.mu.Lock(); defer l.mu.Unlock(); return l.nfail }

// SetFailIf installs (or, with nil, removes) the FailIf hook under the link's lock.
func (l *Link) SetFailIf(f func(Frame) error) { l.mu.Lock(); l.FailIf = f; l.mu.Unlock() }

// SetBlockIf installs (or, with nil, removes) the BlockIf hook under the link's lock.
func (l *Link) SetBlockIf(f func(Frame) bool) { l.mu.Lock(); l.BlockIf = f; l.mu.Unlock() }

// ReaderParked reports that the other end is parked in Read with nothing available to it (frames held back
// by the valve do not count): it has done whatever it does with the frames released so far.
func (l *Link) ReaderParked() bool {
	l.mu.Lock()
	defer l.mu.Unlock()
	return l.waiting > 0 && len(l.avail) == 0 && l.consumed == 0
}

// Writes reports how many Write calls went through (were not refused and are not blocked).
func (l *Link) Writes() int { l.mu.Lock(); defer l.mu.Unlock(); return l.nwrite }

// Desync reports that the bytes written after the last frame of the log do not start with a header.
func (l *Link) Desync() bool { l.mu.Lock(); defer l.mu.Unlock(); return l.desync }

// Frames returns a copy of the log of the frames of the stream (in the order a reader finds them).
func (l *Link) Frames() []Frame {
	l.mu.Lock()
	defer l.mu.Unlock()
	return append([]Frame(nil), l.log...)
}

// Conn is a connection made of two links.
type Conn struct {
	ID   int
	Up   *Link // client -> server
	Down *Link // server -> client
}

// Close closes both directions (abrupt disconnect).
func (c *Conn) Close() { c.Up.close(); c.Down.close() }

type end struct {
	name string
	r, w *Link
}

func (e *end) Read(p []byte) (int, error)  { return e.r.read(p) }
func (e *end) Write(p []byte) (int, error) { return e.w.write(p) }
func (e *end) Close() error                { e.r.close(); e.w.close(); return nil }
func (e *end) String() string              { return e.name }
func (e *end) Context() context.Context    { return context.TODO() }

// Net is a set of harness connections plus the listener handing their server ends out.
type Net struct {
	seq    int
	seqMu  sync.Mutex
	accept chan net.Stream
	closed chan struct{}
	once   sync.Once
	mu     sync.Mutex
	Conns  []*Conn
	wake   chan struct{}
	// defaults applied to the links of new connections
	UpPaused, DownPaused bool
	DownBlockIf          func(Frame) bool
}

func NewNet() *Net {
	return &Net{accept: make(chan net.Stream, 64), closed: make(chan struct{}), wake: make(chan struct{}, 1)}
}

func (n *Net) notify() {
	select {
	case n.wake <- struct{}{}:
	default:
	}
}

// WaitFor polls cond (re-evaluated whenever something happens on a link) until it holds or d elapses.
func (n *Net) WaitFor(d time.Duration, cond func() bool) bool {
	dl := time.NewTimer(d)
	defer dl.Stop()
	tick := time.NewTicker(500 * time.Microsecond)
	defer tick.Stop()
	for {
		if cond() {
			return true
		}
		select {
		case <-n.wake:
		case <-tick.C:
		case <-dl.C:
			return cond()
		}
	}
}

func (n *Net) Accept() (net.Stream, error) {
	select {
	case s := <-n.accept:
		return s, nil
	case <-n.closed:
		return nil, io.EOF
	}
}
func (n *Net) Close() error { n.once.Do(func() { close(n.closed) }); return nil }

func (n *Net) newLink(name string) *Link {
	l := &Link{Name: name, net: n}
	l.cond = sync.NewCond(&l.mu)
	return l
}

// Dial creates a connection, hands the server end to the listener and returns the client end.
func (n *Net) Dial() (*Conn, net.Stream) {
	n.mu.Lock()
	id := len(n.Conns)
	c := &Conn{ID: id, Up: n.newLink(fmt.Sprintf("c%d.up", id)), Down: n.newLink(fmt.Sprintf("c%d.down", id))}
	n.Conns = append(n.Conns, c)
	n.mu.Unlock()
	n.accept <- &end{name: fmt.Sprintf("rig://server/%d", id), r: c.Up, w: c.Down}
	return c, &end{name: fmt.Sprintf("rig://client/%d", id), r: c.Down, w: c.Up}
}
