// Package rig: harness-owned streams and listener for driving bus servers and clients
// through forced schedules.  A link is one direction of a connection and carries whole
// frames (Message.Write issues exactly one Write per frame) in FIFO order.  A valve can
// hold frames back (the writer is not blocked), and a writer can be blocked inside Write
// until the harness releases it.
package rig

import (
	"bytes"
	"context"
	"encoding/binary"
	"fmt"
	"io"
	"sync"
	"time"

	"github.com/lugu/qiloop/bus/net"
)

// Frame is one frame seen on a link.
type Frame struct {
	Hdr     net.Header
	Payload []byte
	Seq     int // global sequence number (order of the Write calls over all links of a Net)
}

func (f Frame) String() string {
	return fmt.Sprintf("{t%d s%d o%d a%d id%d %x}", f.Hdr.Type, f.Hdr.Service, f.Hdr.Object, f.Hdr.Action, f.Hdr.ID, f.Payload)
}

type blockedWriter struct {
	f   Frame
	rel chan struct{}
}

// Link is one direction of a connection.
type Link struct {
	Name string
	net  *Net
	mu   sync.Mutex
	cond *sync.Cond
	// frames written and held back by the valve
	parked [][]byte
	pframe []Frame
	// bytes available to the reader, and the frame boundaries inside them
	avail    []byte
	lens     []int
	consumed int
	nread    int // frames completely read by the other end
	paused   bool
	closed   bool
	log      []Frame
	// PauseIf: when a written frame matches, the valve closes before that frame is delivered.
	PauseIf func(f Frame) bool
	// BlockIf: when a frame to be written matches, the writer blocks until Release; the frame
	// is logged and delivered (or parked) only after the release.
	BlockIf func(f Frame) bool
	blocked []*blockedWriter
}

// Parse splits a written buffer into header and payload (also for headers Header.Read refuses).
func Parse(p []byte) (Frame, bool) {
	if len(p) < net.HeaderSize {
		return Frame{}, false
	}
	var h net.Header
	if err := h.Read(bytes.NewReader(p[:net.HeaderSize])); err != nil {
		h.Magic = binary.BigEndian.Uint32(p[0:4])
		h.ID = binary.LittleEndian.Uint32(p[4:8])
		h.Size = binary.LittleEndian.Uint32(p[8:12])
		h.Version = binary.LittleEndian.Uint16(p[12:14])
		h.Type, h.Flags = p[14], p[15]
		h.Service = binary.LittleEndian.Uint32(p[16:20])
		h.Object = binary.LittleEndian.Uint32(p[20:24])
		h.Action = binary.LittleEndian.Uint32(p[24:28])
	}
	return Frame{Hdr: h, Payload: append([]byte(nil), p[net.HeaderSize:]...)}, true
}

func (l *Link) write(p []byte) (int, error) {
	f, ok := Parse(p)
	l.mu.Lock()
	if l.closed {
		l.mu.Unlock()
		return 0, io.ErrClosedPipe
	}
	if ok && l.BlockIf != nil && l.BlockIf(f) {
		bw := &blockedWriter{f: f, rel: make(chan struct{})}
		l.blocked = append(l.blocked, bw)
		l.mu.Unlock()
		l.net.notify()
		<-bw.rel
		l.mu.Lock()
		if l.closed {
			l.mu.Unlock()
			return 0, io.ErrClosedPipe
		}
	}
	l.net.seqMu.Lock()
	l.net.seq++
	f.Seq = l.net.seq
	l.net.seqMu.Unlock()
	l.log = append(l.log, f)
	if ok && !l.paused && l.PauseIf != nil && l.PauseIf(f) {
		l.paused = true
	}
	b := append([]byte(nil), p...)
	if l.paused {
		l.parked = append(l.parked, b)
		l.pframe = append(l.pframe, f)
	} else {
		l.avail = append(l.avail, b...)
		l.lens = append(l.lens, len(b))
	}
	l.cond.Broadcast()
	l.mu.Unlock()
	l.net.notify()
	return len(p), nil
}

// Blocked returns the frames of the writers currently blocked in Write.
func (l *Link) Blocked() []Frame {
	l.mu.Lock()
	defer l.mu.Unlock()
	var fs []Frame
	for _, b := range l.blocked {
		fs = append(fs, b.f)
	}
	return fs
}

// Release lets the first blocked writer whose frame matches continue.
func (l *Link) Release(match func(Frame) bool) bool {
	l.mu.Lock()
	defer l.mu.Unlock()
	for i, b := range l.blocked {
		if match == nil || match(b.f) {
			l.blocked = append(l.blocked[:i], l.blocked[i+1:]...)
			close(b.rel)
			return true
		}
	}
	return false
}

// Pause closes the valve.
func (l *Link) Pause() { l.mu.Lock(); l.paused = true; l.mu.Unlock() }

// Resume opens the valve and delivers the parked frames in order.
func (l *Link) Resume() {
	l.mu.Lock()
	l.paused = false
	for _, b := range l.parked {
		l.avail = append(l.avail, b...)
		l.lens = append(l.lens, len(b))
	}
	l.parked, l.pframe = nil, nil
	l.cond.Broadcast()
	l.mu.Unlock()
}

// Parked returns the frames held back by the valve.
func (l *Link) Parked() []Frame {
	l.mu.Lock()
	defer l.mu.Unlock()
	return append([]Frame(nil), l.pframe...)
}

// ReleaseOne delivers the first parked frame and keeps the valve closed.
func (l *Link) ReleaseOne() (Frame, bool) {
	l.mu.Lock()
	defer l.mu.Unlock()
	if len(l.parked) == 0 {
		return Frame{}, false
	}
	b, f := l.parked[0], l.pframe[0]
	l.parked, l.pframe = l.parked[1:], l.pframe[1:]
	l.avail = append(l.avail, b...)
	l.lens = append(l.lens, len(b))
	l.cond.Broadcast()
	return f, true
}

func (l *Link) read(p []byte) (int, error) {
	l.mu.Lock()
	defer l.mu.Unlock()
	for len(l.avail) == 0 && !l.closed {
		l.cond.Wait()
	}
	if len(l.avail) == 0 {
		return 0, io.EOF
	}
	n := copy(p, l.avail)
	l.avail = l.avail[n:]
	l.consumed += n
	for len(l.lens) > 0 && l.consumed >= l.lens[0] {
		l.consumed -= l.lens[0]
		l.lens = l.lens[1:]
		l.nread++
	}
	return n, nil
}

func (l *Link) close() {
	l.mu.Lock()
	if !l.closed {
		l.closed = true
		for _, b := range l.blocked {
			close(b.rel)
		}
		l.blocked = nil
	}
	l.cond.Broadcast()
	l.mu.Unlock()
}

// Closed reports whether either end closed the connection.
func (l *Link) Closed() bool { l.mu.Lock(); defer l.mu.Unlock(); return l.closed }

// Read reports how many frames the other end has completely read.
func (l *Link) Read() int { l.mu.Lock(); defer l.mu.Unlock(); return l.nread }

// Frames returns a copy of the log of frames written on the link.
func (l *Link) Frames() []Frame {
	l.mu.Lock()
	defer l.mu.Unlock()
	return append([]Frame(nil), l.log...)
}

// Conn is a connection made of two links.
type Conn struct {
	ID   int
	Up   *Link // client -> server
	Down *Link // server -> client
}

// Close closes both directions (abrupt disconnect).
func (c *Conn) Close() { c.Up.close(); c.Down.close() }

type end struct {
	name string
	r, w *Link
}

func (e *end) Read(p []byte) (int, error)  { return e.r.read(p) }
func (e *end) Write(p []byte) (int, error) { return e.w.write(p) }
func (e *end) Close() error                { e.r.close(); e.w.close(); return nil }
func (e *end) String() string              { return e.name }
func (e *end) Context() context.Context    { return context.TODO() }

// Net is a set of harness connections plus the listener handing their server ends out.
type Net struct {
	seq    int
	seqMu  sync.Mutex
	accept chan net.Stream
	closed chan struct{}
	once   sync.Once
	mu     sync.Mutex
	Conns  []*Conn
	wake   chan struct{}
	// defaults applied to the links of new connections
	UpPaused, DownPaused bool
	DownBlockIf          func(Frame) bool
}

func NewNet() *Net {
	return &Net{accept: make(chan net.Stream, 64), closed: make(chan struct{}), wake: make(chan struct{}, 1)}
}

func (n *Net) notify() {
	select {
	case n.wake <- struct{}{}:
	default:
	}
}

// WaitFor polls cond (re-evaluated whenever something happens on a link) until it holds or d elapses.
func (n *Net) WaitFor(d time.Duration, cond func() bool) bool {
	dl := time.NewTimer(d)
	defer dl.Stop()
	tick := time.NewTicker(500 * time.Microsecond)
	defer tick.Stop()
	for {
		if cond() {
			return true
		}
		select {
		case <-n.wake:
		case <-tick.C:
		case <-dl.C:
			return cond()
		}
	}
}

func (n *Net) Accept() (net.Stream, error) {
	select {
	case s := <-n.accept:
		return s, nil
	case <-n.closed:
		return nil, io.EOF
	}
}
func (n *Net) Close() error { n.once.Do(func() { close(n.closed) }); return nil }

func (n *Net) newLink(name string) *Link {
	l := &Link{Name: name, net: n}
	l.cond = sync.NewCond(&l.mu)
	return l
}

// Dial creates a connection, hands the server end to the listener and returns the client end.
func (n *Net) Dial() (*Conn, net.Stream) {
	n.mu.Lock()
	id := len(n.Conns)
	c := &Conn{ID: id, Up: n.newLink(fmt.Sprintf("c%d.up", id)), Down: n.newLink(fmt.Sprintf("c%d.down", id))}
	n.Conns = append(n.Conns, c)
	n.mu.Unlock()
	n.accept <- &end{name: fmt.Sprintf("rig://server/%d", id), r: c.Up, w: c.Down}
	return c, &end{name: fmt.Sprintf("rig://client/%d", id), r: c.Down, w: c.Up}
}
