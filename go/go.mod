module qv

go 1.13

require (
	github.com/ftrvxmtrx/fd v0.0.0-20150925145434-c6d800382fff
	github.com/lugu/qiloop v0.0.0
)

replace github.com/lugu/qiloop => /repo
