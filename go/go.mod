module qv

go 1.13

require github.com/lugu/qiloop v0.0.0

replace github.com/lugu/qiloop => /repo
