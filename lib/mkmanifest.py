#!/usr/bin/env python3
"""regenerates MANIFEST.json from lib/claims.json (one entry per claimed property)"""
import json, os
ROOT = os.path.dirname(os.path.dirname(os.path.abspath(__file__)))
import glob
claims = {os.path.basename(f)[:-5]: json.load(open(f)) for f in glob.glob(os.path.join(ROOT, "lib", "claims", "*.json"))}
ids = [json.loads(l)["id"] for l in open(os.path.join(ROOT, "properties.jsonl"))]
checks, na = [], []
for pid in ids:
    c = claims.get(pid)
    if not c or c.get("not_applicable"):
        na.append({"property_id": pid, "reason": (c or {}).get("not_applicable", "no check registered yet: model and theorems for this property are not built in this revision")})
        continue
    checks.append({
        "property_id": pid,
        "quick_cmd": "./check %s quick" % pid,
        "thorough_cmd": "./check %s thorough" % pid,
        "evidence_file": "/verif/evidence/%s.json" % pid,
        "replay_cmd_template": "./check %s --replay {path}" % pid,
        "engine": "rocq-model+correspondence",
        "level_claimed": {"category": "proof", "text": c["text"], "design_ref": c.get("design_ref", "DESIGN.md section 7, " + pid)},
        "level_note": c["note"],
        "technique": c["technique"],
    })
m = {
    "version": 1,
    "setup_cmd": "./check setup",
    "hooks": {
        "guard": "verif",
        "enable": "go build -tags verif (the qv/srcfacts harness module under /verif/go replaces github.com/lugu/qiloop by /repo)",
        "baseline_off_cmd": "cd /repo && go build ./... && go test -vet=off -count=1 ./...",
        "source_commits": json.load(open(os.path.join(ROOT, "lib", "hook_commits.json"))) if os.path.exists(os.path.join(ROOT, "lib", "hook_commits.json")) else [],
        "add_only": True,
    },
    "engines": [{"name": "rocq-model+correspondence", "path": "/verif/check", "serves_properties": [c["property_id"] for c in checks],
                 "kind_free_text": "Coq 8.16.1 models + theorems (coq/), facts regenerated from /repo by srcfacts and proved equal to the model's (coq/ties), Go harness qv running the implementation, model evaluated on the same cases by vm_compute inside Coq"}],
    "checks": checks,
    "notes": "All checks share one incremental Coq build and one harness build, serialised by a file lock; see DESIGN.md.",
    "not_applicable": na,
}
json.dump(m, open(os.path.join(ROOT, "MANIFEST.json"), "w"), indent=1)
print("claimed:", len(checks), "not claimed:", len(na))
