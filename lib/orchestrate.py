import argparse, fcntl, glob, hashlib, json, os, re, shutil, subprocess, sys, time
from concurrent.futures import ThreadPoolExecutor

ROOT = os.path.dirname(os.path.dirname(os.path.abspath(__file__)))
BUILD = os.path.join(ROOT, "_build")
COQ = os.path.join(ROOT, "coq")
GO = os.path.join(ROOT, "go")
REPO = os.environ.get("VERIF_REPO", "/repo")
GOENV = dict(os.environ, GOFLAGS="-mod=mod", GOPROXY="off", GOSUMDB="off", GOTOOLCHAIN="local",
             CGO_ENABLED=os.environ.get("CGO_ENABLED", "0"))
NCPU = os.cpu_count() or 4

STDLIB_AXIOMS_OK = {
    # axioms declared by Coq's standard library that a theorem may depend on; each one that
    # actually occurs is named in the evidence file
    "functional_extensionality_dep", "proof_irrelevance", "classic", "JMeq_eq", "Eqdep.Eq_rect_eq.eq_rect_eq",
    "eq_rect_eq", "propositional_extensionality", "constructive_indefinite_description",
}

TRUSTED_BASE = [
    "Coq 8.16.1 kernel (coqc); vm_compute used for closed computations; native_compute not used",
    "no Axiom/Parameter/Admitted in the development (grep + Print Assumptions on every property theorem)",
    "srcfacts (go/parser + compiled constants) regenerating coq/gen/Facts.v",
    "qv harness (generators, harness-owned io.Reader/Writer/Stream, oracles) and this orchestration",
    "cases are evaluated on the model inside Coq (Eval vm_compute); no extraction is used",
]


def log(msg):
    print(msg, flush=True)


def _big_stack():
    # Coq's front end recurses on long list literals of generated case files
    try:
        import resource
        soft, hard = resource.getrlimit(resource.RLIMIT_STACK)
        resource.setrlimit(resource.RLIMIT_STACK, (hard, hard))
    except Exception:
        pass


def sh(cmd, cwd=None, env=None, timeout=None, capture=True):
    try:
        p = subprocess.run(cmd, cwd=cwd, env=env, timeout=timeout, stdout=subprocess.PIPE if capture else None,
                           stderr=subprocess.STDOUT if capture else None, text=True, preexec_fn=_big_stack)
        return p.returncode, p.stdout or ""
    except subprocess.TimeoutExpired as e:
        out = e.stdout if isinstance(e.stdout, str) else (e.stdout or b"").decode("utf8", "replace")
        return 124, out + "\n<timeout>"


class Lock:
    def __enter__(self):
        os.makedirs(BUILD, exist_ok=True)
        self.f = open(os.path.join(BUILD, ".lock"), "w")
        fcntl.flock(self.f, fcntl.LOCK_EX)
        return self

    def __exit__(self, *a):
        fcntl.flock(self.f, fcntl.LOCK_UN)
        self.f.close()


def coq_files():
    fs = []
    for d in ("theories", "gen", "props", "ties", "run"):
        fs += sorted(glob.glob(os.path.join(COQ, d, "*.v")))
    return [os.path.relpath(f, COQ) for f in fs]


def go_module_dir():
    """the harness module; for VERIF_REPO != /repo (seeded-mutation runs on a scratch worktree) a copy
    whose replace directive points at that tree"""
    global GO
    if os.path.realpath(REPO) == "/repo":
        return GO
    alt = os.path.join(BUILD, "go-alt")
    shutil.rmtree(alt, ignore_errors=True)
    shutil.copytree(GO, alt, ignore=shutil.ignore_patterns("go.sum"))
    gm = open(os.path.join(alt, "go.mod")).read().replace("=> /repo", "=> " + os.path.realpath(REPO))
    open(os.path.join(alt, "go.mod"), "w").write(gm)
    GO = alt
    return alt


def build_go():
    """(re)build srcfacts and qv against the current /repo tree"""
    os.makedirs(os.path.join(BUILD, "bin"), exist_ok=True)
    go_module_dir()
    src_sum = os.path.join(REPO, "go.sum")
    dst_sum = os.path.join(GO, "go.sum")
    if os.path.exists(src_sum):
        a = open(src_sum, "rb").read()
        if not os.path.exists(dst_sum) or open(dst_sum, "rb").read() != a:
            open(dst_sum, "wb").write(a)
    errs = []
    for name in ("srcfacts", "qv"):
        rc, out = sh(["go", "build", "-tags", "verif", "-o", os.path.join(BUILD, "bin", name), "./cmd/" + name],
                     cwd=GO, env=GOENV, timeout=900)
        if rc != 0:
            errs.append((name, out))
    return errs


def regen_facts():
    rc, out = sh([os.path.join(BUILD, "bin", "srcfacts"), REPO], timeout=120)
    if rc != 0:
        return "srcfacts failed: " + out[-2000:]
    os.makedirs(os.path.join(COQ, "gen"), exist_ok=True)
    p = os.path.join(COQ, "gen", "Facts.v")
    old = open(p).read() if os.path.exists(p) else None
    if old != out:
        open(p, "w").write(out)
    return None


def coq_make(targets, timeout=3000):
    """incremental full .vo build of the given targets; returns (rc, log)"""
    files = coq_files()
    stamp = os.path.join(COQ, ".filelist")
    lst = "\n".join(files)
    if not os.path.exists(os.path.join(COQ, "Makefile")) or not os.path.exists(stamp) or open(stamp).read() != lst:
        rc, out = sh(["coq_makefile", "-f", "_CoqProject", "-o", "Makefile"] + files, cwd=COQ)
        if rc != 0:
            return rc, out
        open(stamp, "w").write(lst)
    return sh(["make", "-j%d" % NCPU, "-k"] + targets, cwd=COQ, timeout=timeout)


def grep_forbidden():
    bad = []
    pat = re.compile(r"\b(Admitted|admit|Axiom|Axioms|Parameter|Parameters|Conjecture|Hypothesis|Variable|bypass_check)\b|Unset Guard|type-in-type|impredicative-set|Admit Obligations")
    for f in coq_files():
        if f.startswith("gen/"):
            continue
        txt = open(os.path.join(COQ, f)).read()
        txt = re.sub(r"\(\*.*?\*\)", "", txt, flags=re.S)
        txt = re.sub(r'"(?:[^"]|"")*"', '""', txt)  # string literals cannot declare anything
        # Variable/Hypothesis are allowed inside sections only
        depth = 0
        for ln, line in enumerate(txt.split("\n"), 1):
            if re.match(r"\s*Section\b", line):
                depth += 1
            if re.match(r"\s*End\b", line) and depth > 0:
                depth -= 1
            m = pat.search(line)
            if m:
                w = m.group(0)
                if w in ("Variable", "Hypothesis") and depth > 0:
                    continue
                bad.append("%s:%d: %s" % (f, ln, line.strip()))
    return bad


def compile_props(pid):
    """compile props/<pid>.v again to read what Print Assumptions says for every theorem"""
    f = "props/%s.v" % pid
    rc, out = sh(["coqc", "-Q", "theories", "QV", "-Q", "gen", "QV", "-Q", "props", "QV", "-Q", "ties", "QV",
                  "-Q", "run", "QV", f], cwd=COQ, timeout=1800)
    src = open(os.path.join(COQ, f)).read()
    src_nc = re.sub(r"\(\*.*?\*\)", "", src, flags=re.S)
    theorems = re.findall(r"^\s*(?:Theorem|Example)\s+(\w+)", src_nc, flags=re.M)
    printed = re.findall(r"Print Assumptions\s+(\w+)", src_nc)
    closed = out.count("Closed under the global context")
    axioms = []
    for blk in re.findall(r"Axioms:\n((?:.+\n?)+?)(?=\n\S|\Z)", out):
        for line in blk.split("\n"):
            m = re.match(r"^(\S+)\s*:", line)
            if m:
                axioms.append(m.group(1))
    return rc, out, theorems, printed, closed, sorted(set(axioms))


def pin_diff(name):
    """functions of a pinned source file whose digest differs from coq/ties/WireSrcPins.v"""
    try:
        def rows(path, ident):
            m = re.search(r"Definition %s : list \(string \* string\) :=\n(.*?)\]\.\n" % ident, open(path).read(), re.S)
            return dict(re.findall(r'\("([^"]+)"(?:%string)?, "([0-9a-f]+)"', m.group(1))) if m else {}
        now = rows(os.path.join(COQ, "gen", "Facts.v"), "f_src_" + name)
        pin = rows(os.path.join(COQ, "ties", "WireSrcPins.v"), "pin_src_" + name)
        out = ["%s (rewritten)" % k for k in now if k in pin and pin[k] != now[k]]
        out += ["%s (new)" % k for k in now if k not in pin]
        out += ["%s (removed)" % k for k in pin if k not in now]
        return out
    except Exception as e:
        return ["<could not compare: %s>" % e]


def tie_lemmas(pid):
    p = os.path.join(COQ, "ties", "Tie%s.v" % pid)
    if not os.path.exists(p):
        return []
    src = re.sub(r"\(\*.*?\*\)", "", open(p).read(), flags=re.S)
    return re.findall(r"^\s*(?:Lemma|Theorem)\s+(\w+)", src, flags=re.M)


def eval_shard(args):
    casedir, f = args
    t0 = time.time()
    rc, out = sh(["coqc", "-Q", os.path.join(COQ, "theories"), "QV", "-Q", os.path.join(COQ, "run"), "QV",
                  "-Q", os.path.join(COQ, "gen"), "QV", f],
                 cwd=casedir, timeout=3600)
    m = re.search(r"^M\s*=\s*(.*?)\n\s*:", out, flags=re.S | re.M)
    term = m.group(1) if m else None
    return f, rc, term, out, time.time() - t0


def term_clean(term):
    """true iff the printed verdict contains only empty lists"""
    t = re.sub(r"\s+", "", term)
    t = t.replace("[]", "")
    t = re.sub(r"[(),]", "", t)
    return t == ""


def term_indices(term):
    """the printed verdict is a tuple of index lists; returns list of lists of ints"""
    t = re.sub(r"\s+", "", term)
    t = t.replace("%nat", "").replace("%N", "")
    return [[int(x) for x in re.findall(r"\d+", grp)] for grp in re.findall(r"\[([^\[\]]*)\]", t)]


def load_known():
    listed, fixed = {}, []
    for p in [os.path.join(ROOT, "KNOWN_FINDINGS.txt")]:
        if not os.path.exists(p):
            continue
        for line in open(p):
            line = line.strip()
            if not line or line.startswith("#"):
                continue
            m = re.match(r"finding:\s*property=(\w+)\s+key=(\S+)\s+(.*)", line)
            if m:
                listed[(m.group(1), m.group(2))] = m.group(3)
            elif line.startswith("fixed:"):
                fixed.append(line)
    return listed, fixed


def coqchk_once(log_lines):
    """thorough tier: independent re-check of all compiled files, once per .vo state"""
    vos = sorted(glob.glob(os.path.join(COQ, "*", "*.vo")))
    h = hashlib.sha256()
    for v in vos:
        h.update(open(v, "rb").read())
    stamp = os.path.join(BUILD, "coqchk.stamp")
    key = h.hexdigest()
    if os.path.exists(stamp):
        d = json.load(open(stamp))
        if d.get("key") == key:
            return d
    mods = []
    for v in vos:
        rel = os.path.relpath(v, COQ)
        mods.append("QV." + os.path.splitext(os.path.basename(rel))[0])
    cmd = ["coqchk", "-silent", "-o", "-Q", "theories", "QV", "-Q", "gen", "QV", "-Q", "props", "QV",
           "-Q", "ties", "QV", "-Q", "run", "QV"] + mods
    rc, out = sh(cmd, cwd=COQ, timeout=6 * 3600)
    d = {"key": key, "rc": rc, "tail": out[-3000:], "cmd": " ".join(cmd[:4]) + " ... (%d modules)" % len(mods)}
    json.dump(d, open(stamp, "w"))
    return d


def write_replay(pid, name, payload):
    d = os.path.join(BUILD, "replay")
    os.makedirs(d, exist_ok=True)
    p = os.path.join(d, "%s_%s.json" % (pid, name))
    json.dump(payload, open(p, "w"), indent=1)
    # a copy next to the evidence so that it survives a clean of _build
    ed = os.path.join(ROOT, "evidence", "replay")
    os.makedirs(ed, exist_ok=True)
    shutil.copy(p, os.path.join(ed, os.path.basename(p)))
    return os.path.join(ed, os.path.basename(p))


def main(argv):
    ap = argparse.ArgumentParser()
    ap.add_argument("pid")
    ap.add_argument("tier", nargs="?", default=os.environ.get("VERIF_TIER", "quick"))
    ap.add_argument("--seed", type=int, default=int(os.environ.get("VERIF_SEED", "1") or 1))
    ap.add_argument("--replay")
    ap.add_argument("--setup", action="store_true", help="build everything, run nothing")
    a = ap.parse_args(argv)
    if a.replay:
        r = json.load(open(a.replay))
        a.seed, a.tier = r.get("seed", a.seed), r.get("tier", a.tier)
        log("replaying %s: seed=%s tier=%s kind=%s" % (a.replay, a.seed, a.tier, r.get("kind")))
        log(json.dumps(r, indent=1)[:6000])
    if a.pid == "setup":
        return setup()
    return run_check(a.pid, a.tier, a.seed)


def setup():
    t0 = time.time()
    with Lock():
        errs = build_go()
        if errs:
            for n, o in errs:
                log("go build %s failed:\n%s" % (n, o))
            return 1
        e = regen_facts()
        if e:
            log(e)
            return 1
        rc, out = coq_make([], timeout=7200)
        open(os.path.join(BUILD, "setup_coq.log"), "w").write(out)
        if rc != 0:
            log(out[-4000:])
            return 1
    log("setup ok in %.0fs" % (time.time() - t0))
    return 0


def run_check(pid, tier, seed):
    t0 = time.time()
    os.makedirs(os.path.join(ROOT, "evidence"), exist_ok=True)
    os.makedirs(os.path.join(BUILD, "logs"), exist_ok=True)
    notes, proof_breaks = [], []
    listed, fixed = load_known()

    with Lock():
        errs = build_go()
        harness_ok = not errs
        for n, o in errs:
            proof_breaks.append({"what": "go build of %s against /repo (tags verif)" % n, "error": o[-3000:]})
        facts_err = regen_facts() if os.path.exists(os.path.join(BUILD, "bin", "srcfacts")) else "no srcfacts binary"
        if facts_err:
            proof_breaks.append({"what": "srcfacts", "error": facts_err})
        targets = ["props/%s.vo" % pid, "run/%sRun.vo" % pid]
        if os.path.exists(os.path.join(COQ, "ties", "Tie%s.v" % pid)):
            targets.append("ties/Tie%s.vo" % pid)
        rc, out = coq_make(targets)
        open(os.path.join(BUILD, "logs", "%s_make.log" % pid), "w").write(out)
        built = {}
        for t in targets:
            built[t] = rc == 0 or sh(["make", "-q", t], cwd=COQ)[0] == 0
        if rc != 0:
            # which file failed and why
            for m in re.finditer(r'File "\./([^"]+)", line (\d+).*?\n(Error:.*?)(?=\nmake|\nCOQC|\Z)', out, flags=re.S):
                brk = {"what": "coqc %s line %s" % (m.group(1), m.group(2)), "error": m.group(3)[:1500]}
                pm = re.search(r"pin_src_(\w+)", m.group(3))
                if pm:
                    brk["functions_rewritten_since_the_model_was_read"] = pin_diff(pm.group(1))
                proof_breaks.append(brk)
            if not any(b["what"].startswith("coqc") for b in proof_breaks):
                proof_breaks.append({"what": "make " + " ".join(targets), "error": out[-2000:]})
        # stale .vo of a failed target must not be trusted
        props_ok = built["props/%s.vo" % pid]
        prc, pout, theorems, printed, closed, axioms = compile_props(pid) if props_ok else (1, "", [], [], 0, [])
        forbidden = grep_forbidden()

    ties = tie_lemmas(pid)
    tie_ok = built.get("ties/Tie%s.vo" % pid, True)
    obligations = max(1, len(theorems) + len(ties))
    discharged = (len(theorems) if prc == 0 else 0) + (len(ties) if tie_ok else 0)
    bad_axioms = [x for x in axioms if x.split(".")[-1] not in STDLIB_AXIOMS_OK and x not in STDLIB_AXIOMS_OK]
    if props_ok and prc != 0:
        proof_breaks.append({"what": "coqc props/%s.v" % pid, "error": pout[-2000:]})
    if props_ok and prc == 0 and len(printed) and closed + (1 if axioms else 0) < 1:
        proof_breaks.append({"what": "Print Assumptions output missing", "error": pout[-500:]})
    if bad_axioms:
        proof_breaks.append({"what": "axioms outside the standard library", "error": ", ".join(bad_axioms)})
    if forbidden:
        proof_breaks.append({"what": "forbidden vernacular in the development", "error": "; ".join(forbidden[:10])})

    # ---- correspondence + oracles ----
    casedir = os.path.join(BUILD, "cases", "%s-%s" % (pid, tier))
    shutil.rmtree(casedir, ignore_errors=True)
    os.makedirs(casedir)
    res = None
    if harness_ok:
        rcq, outq = sh([os.path.join(BUILD, "bin", "qv"), "--seed", str(seed), "--tier", tier, "--out", casedir, pid],
                       env=dict(GOENV, VERIF_REPO=REPO, VERIF_ROOT=ROOT), timeout=6 * 3600 if tier == "thorough" else 900)
        open(os.path.join(BUILD, "logs", "%s_qv.log" % pid), "w").write(outq)
        rp = os.path.join(casedir, "%s_result.json" % pid)
        if rcq != 0 or not os.path.exists(rp):
            proof_breaks.append({"what": "qv %s exited %d" % (pid, rcq), "error": outq[-3000:]})
        else:
            res = json.load(open(rp))
    mismatches, shard_errors, shards = [], [], 0
    run_vo = os.path.join(COQ, "run", "%sRun.vo" % pid)
    if res and res.get("case_files"):
        if not built["run/%sRun.vo" % pid] or not os.path.exists(run_vo):
            notes.append("model not built: correspondence not evaluated")
        else:
            with ThreadPoolExecutor(max_workers=NCPU) as ex:
                for f, rcs, term, outs, dt in ex.map(eval_shard, [(casedir, f) for f in res["case_files"]]):
                    shards += 1
                    if term is None:
                        shard_errors.append({"file": f, "error": outs[-1500:]})
                        continue
                    if not term_clean(term):
                        idx = res.get("case_index", {}).get(f, [])
                        groups = term_indices(term)
                        # map printed indices back to descriptions: lists appear in declaration order
                        names = []
                        for d in idx:
                            n = d.split("[")[0]
                            if n not in names:
                                names.append(n)
                        for gi, g in enumerate(groups):
                            lname = names[gi] if gi < len(names) else "list%d" % gi
                            for i in g:
                                desc = next((d for d in idx if d.startswith("%s[%d]:" % (lname, i))), "%s[%d]" % (lname, i))
                                mismatches.append({"file": f, "case": desc, "verdict": term[:400]})

    failures = (res or {}).get("failures") or []
    switches = (res or {}).get("switches") or {}
    switch_detail = (res or {}).get("switch_detail") or {}
    unknown_fail = [f for f in failures if not f.get("known") or (pid, f["known"]) not in listed]
    known_fail = [f for f in failures if f.get("known") and (pid, f["known"]) in listed]

    violations = []
    known_lines = []
    for k, on in sorted(switches.items()):
        if not on:
            continue
        if (pid, k) in listed:
            known_lines.append("KNOWN-FINDING: property=%s %s" % (pid, listed[(pid, k)]))
        else:
            p = write_replay(pid, "switch_" + k, {"property": pid, "seed": seed, "tier": tier, "kind": "defect-probe " + k,
                                                  "detail": switch_detail.get(k, "")})
            violations.append("VIOLATION property=%s replay=%s" % (pid, p))
    if unknown_fail:
        f0 = unknown_fail[0]
        p = write_replay(pid, "failing_input", {"property": pid, "seed": seed, "tier": tier, "kind": f0["kind"],
                                                "detail": f0["detail"], "more": len(unknown_fail) - 1,
                                                "others": [x["kind"] + ": " + x["detail"][:300] for x in unknown_fail[1:6]]})
        violations.append("VIOLATION property=%s replay=%s" % (pid, p))
    broken = proof_breaks or mismatches or shard_errors
    if broken and not unknown_fail and not violations:
        p = write_replay(pid, "unproved", {"property": pid, "seed": seed, "tier": tier,
                                           "kind": "proof obligation or correspondence no longer checks",
                                           "broken_obligations": proof_breaks, "correspondence_mismatches": mismatches[:20],
                                           "shard_errors": shard_errors[:5],
                                           "search": "property oracles were evaluated on %d generated cases of the implementation and none failed"
                                                     % ((res or {}).get("evaluations", 0))})
        violations.append("VIOLATION property=%s replay=%s no-failing-input-found" % (pid, p))
    elif broken and (unknown_fail or violations):
        notes.append("also broken: %d obligations, %d correspondence mismatches" % (len(proof_breaks), len(mismatches)))

    chk = None
    if tier == "thorough" and rc == 0:
        with Lock():
            coq_make([], timeout=7200)   # every .vo must be current before the whole development is re-checked
            chk = coqchk_once(notes)
        if chk["rc"] != 0:
            p = write_replay(pid, "coqchk", {"property": pid, "kind": "coqchk failed", "detail": chk["tail"]})
            violations.append("VIOLATION property=%s replay=%s no-failing-input-found" % (pid, p))

    for l in known_lines:
        log(l)
    wall = time.time() - t0
    ev = {
        "property_id": pid, "tier": tier, "seed": seed, "level": "proof",
        "coverage": {
            "obligations": obligations, "discharged": discharged if not proof_breaks else min(discharged, obligations - 1),
            "checker_cmd": "coq_makefile -f _CoqProject && make (coqc 8.16.1, full .vo) ; coqc props/%s.v (Print Assumptions)" % pid
                           + (" ; coqchk -silent -o" if chk else ""),
            "trusted_base": TRUSTED_BASE + (["axioms reported by Print Assumptions: " + (", ".join(axioms) if axioms else "none (Closed under the global context x%d)" % closed)]),
            "theorems": theorems, "fact_obligations": ties,
            "evaluations": (res or {}).get("evaluations", 0),
            "distinct_nontrivial": (res or {}).get("distinct_nontrivial", 0),
            "rule": (res or {}).get("rule", ""),
            "samples": (res or {}).get("samples") or ["<no cases: harness did not run>"],
            "input_distribution": (res or {}).get("distribution", {}),
            "traces_validated_against_impl": (res or {}).get("evaluations", 0) if not mismatches and not shard_errors else 0,
            "correspondence_shards": shards, "correspondence_mismatches": len(mismatches),
            "oracle_failures": len(unknown_fail), "known_finding_cases": len(known_fail),
            "defect_switches_observed": switches,
            "exhaustive": bool((res or {}).get("exhaustive", False)),
            "coqchk": ({"rc": chk["rc"], "cmd": chk["cmd"]} if chk else None),
            "notes": notes + ((res or {}).get("notes") or []),
        },
        "assumptions": PROP_ASSUMPTIONS.get(pid, []),
        "wall_s": round(wall, 1),
        "violations": len(violations),
    }
    json.dump(ev, open(os.path.join(ROOT, "evidence", "%s.json" % pid), "w"), indent=1)
    for v in violations:
        log(v)
    log("%s %s: %s  (obligations %d/%d, cases %d, mismatches %d, oracle failures %d, known %d, %.0fs)" % (
        pid, tier, "VIOLATION" if violations else "ok", ev["coverage"]["discharged"], obligations,
        ev["coverage"]["evaluations"], len(mismatches), len(unknown_fail), len(known_fail) + len(known_lines), wall))
    return 1 if violations else 0


PROP_ASSUMPTIONS = {}
for _f in glob.glob(os.path.join(ROOT, "lib", "claims", "*.json")):
    try:
        PROP_ASSUMPTIONS[os.path.basename(_f)[:-5]] = json.load(open(_f)).get("assumptions", [])
    except Exception:
        pass
